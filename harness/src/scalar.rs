//! Monitor scalars: user-supplied types implementing momtrop's MomTropFloat, which put a
//! probe on every arithmetic operation of the unmodified generic code.
//!
//! * `Tracked` — f64 value plus the set of x-space coordinates it data-depends on; comparisons
//!   record control dependencies; `to_f64`/`from_f64` are `#[track_caller]` and append the
//!   call site to a census (C14, C19).
//! * `DD` — double-double (about 106 bits) for residual checks (C19) and rescue of
//!   f64-pathological points (C01).
use momtrop::float::MomTropFloat;
use std::cell::{Cell, RefCell};
use std::cmp::Ordering;
use std::ops::{Add, AddAssign, Div, Mul, MulAssign, Neg, Sub, SubAssign};

// =======================================================================================
// Tracked
// =======================================================================================
#[derive(Clone, Debug)]
pub struct Tracked {
    pub v: f64,
    pub data: u128,
}

#[derive(Clone, Debug)]
pub struct CensusEntry {
    pub kind: &'static str, // "to_f64" | "from_f64"
    pub file: String,
    pub line: u32,
    pub taint: u128,
    pub value: f64,
}

thread_local! {
    static CONTROL: Cell<u128> = Cell::new(0);
    static PENDING: Cell<u128> = Cell::new(0);
    static PENDING_LIVE: Cell<bool> = Cell::new(false);
    static CENSUS: RefCell<Vec<CensusEntry>> = RefCell::new(Vec::new());
    static CENSUS_FROM: Cell<bool> = Cell::new(false);
    static OPS: Cell<u64> = Cell::new(0);
    static PI_SKEW: Cell<f64> = Cell::new(0.0);
    static PI_CALLS: Cell<u64> = Cell::new(0);
}

/// Make `Tracked::PI()` return pi*(1+skew): a user type whose constant differs (as any
/// higher-precision pi differs from the f64 one, only visibly). Code that builds 2*pi from an
/// f64 literal instead of the user's PI() then produces observably different angles.
pub fn tracked_set_pi_skew(skew: f64) {
    PI_SKEW.with(|c| c.set(skew));
    PI_CALLS.with(|c| c.set(0));
}
pub fn tracked_pi_calls() -> u64 {
    PI_CALLS.with(|c| c.get())
}

pub fn tracked_reset(record_from_f64: bool) {
    CONTROL.with(|c| c.set(0));
    PENDING.with(|c| c.set(0));
    PENDING_LIVE.with(|c| c.set(false));
    CENSUS.with(|c| c.borrow_mut().clear());
    CENSUS_FROM.with(|c| c.set(record_from_f64));
    OPS.with(|c| c.set(0));
}
pub fn tracked_control() -> u128 {
    CONTROL.with(|c| c.get())
}
pub fn tracked_census() -> Vec<CensusEntry> {
    CENSUS.with(|c| c.borrow().clone())
}
pub fn tracked_ops() -> u64 {
    OPS.with(|c| c.get())
}

impl Tracked {
    pub fn new(v: f64, data: u128) -> Self {
        Tracked { v, data }
    }
    pub fn coord(v: f64, i: usize) -> Self {
        Tracked { v, data: 1u128 << i }
    }
    pub fn plain(v: f64) -> Self {
        Tracked { v, data: 0 }
    }
}

#[inline]
fn op() {
    OPS.with(|c| c.set(c.get() + 1));
}

macro_rules! tracked_bin {
    ($Tr:ident, $f:ident, $op:tt) => {
        impl $Tr<Tracked> for Tracked {
            type Output = Tracked;
            #[inline]
            fn $f(self, r: Tracked) -> Tracked { op(); Tracked { v: self.v $op r.v, data: self.data | r.data } }
        }
        impl<'a> $Tr<&'a Tracked> for Tracked {
            type Output = Tracked;
            #[inline]
            fn $f(self, r: &'a Tracked) -> Tracked { op(); Tracked { v: self.v $op r.v, data: self.data | r.data } }
        }
        impl<'a> $Tr<Tracked> for &'a Tracked {
            type Output = Tracked;
            #[inline]
            fn $f(self, r: Tracked) -> Tracked { op(); Tracked { v: self.v $op r.v, data: self.data | r.data } }
        }
        impl<'a, 'b> $Tr<&'b Tracked> for &'a Tracked {
            type Output = Tracked;
            #[inline]
            fn $f(self, r: &'b Tracked) -> Tracked { op(); Tracked { v: self.v $op r.v, data: self.data | r.data } }
        }
    };
}
tracked_bin!(Add, add, +);
tracked_bin!(Sub, sub, -);
tracked_bin!(Mul, mul, *);
tracked_bin!(Div, div, /);

impl<'a> AddAssign<&'a Tracked> for Tracked {
    fn add_assign(&mut self, r: &'a Tracked) {
        op();
        self.v += r.v;
        self.data |= r.data;
    }
}
impl<'a> SubAssign<&'a Tracked> for Tracked {
    fn sub_assign(&mut self, r: &'a Tracked) {
        op();
        self.v -= r.v;
        self.data |= r.data;
    }
}
impl<'a> MulAssign<&'a Tracked> for Tracked {
    fn mul_assign(&mut self, r: &'a Tracked) {
        op();
        self.v *= r.v;
        self.data |= r.data;
    }
}
impl Neg for Tracked {
    type Output = Tracked;
    fn neg(self) -> Tracked {
        Tracked { v: -self.v, data: self.data }
    }
}
impl<'a> Neg for &'a Tracked {
    type Output = Tracked;
    fn neg(self) -> Tracked {
        Tracked { v: -self.v, data: self.data }
    }
}
impl PartialEq for Tracked {
    fn eq(&self, o: &Tracked) -> bool {
        CONTROL.with(|c| c.set(c.get() | self.data | o.data));
        self.v == o.v
    }
}
impl PartialOrd for Tracked {
    fn partial_cmp(&self, o: &Tracked) -> Option<Ordering> {
        CONTROL.with(|c| c.set(c.get() | self.data | o.data));
        self.v.partial_cmp(&o.v)
    }
}

macro_rules! tracked_un {
    ($($f:ident),*) => { $( fn $f(&self) -> Self { op(); Tracked { v: f64::$f(self.v), data: self.data } } )* };
}

impl MomTropFloat for Tracked {
    tracked_un!(ln, exp, cos, sin, sqrt, abs);
    fn one(&self) -> Self {
        Tracked::plain(1.0)
    }
    fn zero(&self) -> Self {
        Tracked::plain(0.0)
    }
    #[allow(non_snake_case)]
    fn PI(&self) -> Self {
        PI_CALLS.with(|c| c.set(c.get() + 1));
        Tracked::plain(std::f64::consts::PI * (1.0 + PI_SKEW.with(|c| c.get())))
    }
    fn powf(&self, p: &Self) -> Self {
        op();
        Tracked { v: self.v.powf(p.v), data: self.data | p.data }
    }
    fn inv(&self) -> Self {
        op();
        Tracked { v: 1.0 / self.v, data: self.data }
    }
    fn from_isize(&self, value: isize) -> Self {
        Tracked::plain(value as f64)
    }
    #[track_caller]
    fn from_f64(&self, value: f64) -> Self {
        // the taint of values narrowed just before flows into the next widened value
        let live = PENDING_LIVE.with(|c| c.replace(false));
        let t = if live { PENDING.with(|c| c.replace(0)) } else { 0 };
        if live || CENSUS_FROM.with(|c| c.get()) {
            let loc = std::panic::Location::caller();
            CENSUS.with(|c| {
                let mut c = c.borrow_mut();
                if c.len() < 100_000 {
                    c.push(CensusEntry { kind: "from_f64", file: loc.file().to_string(), line: loc.line(), taint: t, value })
                }
            });
        }
        Tracked { v: value, data: t }
    }
    #[track_caller]
    fn to_f64(&self) -> f64 {
        let loc = std::panic::Location::caller();
        CENSUS.with(|c| {
            let mut c = c.borrow_mut();
            if c.len() < 100_000 {
                c.push(CensusEntry { kind: "to_f64", file: loc.file().to_string(), line: loc.line(), taint: self.data, value: self.v })
            }
        });
        PENDING.with(|c| c.set(c.get() | self.data));
        PENDING_LIVE.with(|c| c.set(true));
        self.v
    }
}

// =======================================================================================
// DD — double-double
// =======================================================================================
#[derive(Clone, Copy, Debug)]
pub struct DD {
    pub hi: f64,
    pub lo: f64,
}

#[inline]
fn two_sum(a: f64, b: f64) -> (f64, f64) {
    let s = a + b;
    let bb = s - a;
    let e = (a - (s - bb)) + (b - bb);
    (s, e)
}
#[inline]
fn quick_two_sum(a: f64, b: f64) -> (f64, f64) {
    let s = a + b;
    let e = b - (s - a);
    (s, e)
}
#[inline]
fn two_prod(a: f64, b: f64) -> (f64, f64) {
    let p = a * b;
    let e = a.mul_add(b, -p);
    (p, e)
}

impl DD {
    pub fn from(x: f64) -> DD {
        DD { hi: x, lo: 0.0 }
    }
    pub fn new(hi: f64, lo: f64) -> DD {
        let (s, e) = quick_two_sum(hi, lo);
        DD { hi: s, lo: e }
    }
    #[inline]
    pub fn add_dd(a: DD, b: DD) -> DD {
        if !a.hi.is_finite() || !b.hi.is_finite() {
            return DD { hi: a.hi + b.hi, lo: 0.0 };
        }
        let (s1, s2) = two_sum(a.hi, b.hi);
        let (t1, t2) = two_sum(a.lo, b.lo);
        let s2 = s2 + t1;
        let (s1, s2) = quick_two_sum(s1, s2);
        let s2 = s2 + t2;
        let (h, l) = quick_two_sum(s1, s2);
        DD { hi: h, lo: l }
    }
    #[inline]
    pub fn mul_dd(a: DD, b: DD) -> DD {
        let (p1, p2) = two_prod(a.hi, b.hi);
        if !p1.is_finite() || p1 == 0.0 {
            return DD { hi: p1, lo: 0.0 };
        }
        let p2 = p2 + (a.hi * b.lo + a.lo * b.hi);
        let (h, l) = quick_two_sum(p1, p2);
        DD { hi: h, lo: l }
    }
    #[inline]
    pub fn div_dd(a: DD, b: DD) -> DD {
        let q1 = a.hi / b.hi;
        if !q1.is_finite() || q1 == 0.0 || !b.hi.is_finite() {
            return DD { hi: q1, lo: 0.0 };
        }
        let r = DD::add_dd(a, DD::mul_dd(b, DD::from(q1)).neg_dd());
        let q2 = r.hi / b.hi;
        let r = DD::add_dd(r, DD::mul_dd(b, DD::from(q2)).neg_dd());
        let q3 = r.hi / b.hi;
        let (h, l) = quick_two_sum(q1, q2);
        DD::add_dd(DD { hi: h, lo: l }, DD::from(q3))
    }
    #[inline]
    pub fn neg_dd(self) -> DD {
        DD { hi: -self.hi, lo: -self.lo }
    }
    pub fn sqrt_dd(self) -> DD {
        if self.hi <= 0.0 || !self.hi.is_finite() {
            return DD { hi: self.hi.sqrt(), lo: 0.0 };
        }
        // Karp's trick
        let x = 1.0 / self.hi.sqrt();
        let ax = self.hi * x;
        let axdd = DD::from(ax);
        let diff = DD::add_dd(self, DD::mul_dd(axdd, axdd).neg_dd());
        let corr = diff.hi * (x * 0.5);
        let (h, l) = two_sum(ax, corr);
        DD { hi: h, lo: l }
    }
    /// deterministic non-zero low word for results of transcendental functions evaluated in
    /// f64: |lo| <= 2^-54 |hi|. Their accuracy is irrelevant to the algebraic residual checks;
    /// what matters is that every value carries 106 significant bits.
    fn dress(hi: f64, salt: u64) -> DD {
        if !hi.is_finite() || hi == 0.0 {
            return DD { hi, lo: 0.0 };
        }
        let mut h = hi.to_bits() ^ salt.wrapping_mul(0x9E3779B97F4A7C15);
        h ^= h >> 29;
        h = h.wrapping_mul(0xBF58476D1CE4E5B9);
        h ^= h >> 32;
        let frac = ((h >> 11) as f64) / (1u64 << 53) as f64 - 0.5; // [-0.5,0.5)
        let lo = hi.abs() * frac * 2f64.powi(-54);
        let (s, e) = quick_two_sum(hi, lo);
        DD { hi: s, lo: e }
    }
    pub fn to_q(&self) -> crate::oracle::Q {
        crate::oracle::q(self.hi) + crate::oracle::q(self.lo)
    }
}

macro_rules! dd_bin {
    ($Tr:ident, $f:ident, $core:expr) => {
        impl $Tr<DD> for DD {
            type Output = DD;
            #[inline]
            fn $f(self, r: DD) -> DD { $core(self, r) }
        }
        impl<'a> $Tr<&'a DD> for DD {
            type Output = DD;
            #[inline]
            fn $f(self, r: &'a DD) -> DD { $core(self, *r) }
        }
        impl<'a> $Tr<DD> for &'a DD {
            type Output = DD;
            #[inline]
            fn $f(self, r: DD) -> DD { $core(*self, r) }
        }
        impl<'a, 'b> $Tr<&'b DD> for &'a DD {
            type Output = DD;
            #[inline]
            fn $f(self, r: &'b DD) -> DD { $core(*self, *r) }
        }
    };
}
dd_bin!(Add, add, DD::add_dd);
dd_bin!(Sub, sub, |a: DD, b: DD| DD::add_dd(a, b.neg_dd()));
dd_bin!(Mul, mul, DD::mul_dd);
dd_bin!(Div, div, DD::div_dd);

impl<'a> AddAssign<&'a DD> for DD {
    fn add_assign(&mut self, r: &'a DD) {
        *self = DD::add_dd(*self, *r);
    }
}
impl<'a> SubAssign<&'a DD> for DD {
    fn sub_assign(&mut self, r: &'a DD) {
        *self = DD::add_dd(*self, r.neg_dd());
    }
}
impl<'a> MulAssign<&'a DD> for DD {
    fn mul_assign(&mut self, r: &'a DD) {
        *self = DD::mul_dd(*self, *r);
    }
}
impl Neg for DD {
    type Output = DD;
    fn neg(self) -> DD {
        self.neg_dd()
    }
}
impl<'a> Neg for &'a DD {
    type Output = DD;
    fn neg(self) -> DD {
        self.neg_dd()
    }
}
impl PartialEq for DD {
    fn eq(&self, o: &DD) -> bool {
        self.hi == o.hi && self.lo == o.lo
    }
}
impl PartialOrd for DD {
    fn partial_cmp(&self, o: &DD) -> Option<Ordering> {
        match self.hi.partial_cmp(&o.hi) {
            Some(Ordering::Equal) => self.lo.partial_cmp(&o.lo),
            x => x,
        }
    }
}

impl MomTropFloat for DD {
    fn one(&self) -> Self {
        DD::from(1.0)
    }
    fn zero(&self) -> Self {
        DD::from(0.0)
    }
    #[allow(non_snake_case)]
    fn PI(&self) -> Self {
        DD { hi: std::f64::consts::PI, lo: 1.2246467991473532e-16 }
    }
    fn ln(&self) -> Self {
        DD::dress(self.hi.ln(), 1)
    }
    fn exp(&self) -> Self {
        DD::dress(self.hi.exp(), 2)
    }
    fn cos(&self) -> Self {
        DD::dress(self.hi.cos(), 3)
    }
    fn sin(&self) -> Self {
        DD::dress(self.hi.sin(), 4)
    }
    fn powf(&self, p: &Self) -> Self {
        DD::dress(self.hi.powf(p.hi), 5)
    }
    fn sqrt(&self) -> Self {
        self.sqrt_dd()
    }
    fn from_isize(&self, value: isize) -> Self {
        let hi = value as f64;
        let lo = (value as i128 - hi as i128) as f64;
        DD { hi, lo }
    }
    fn from_f64(&self, value: f64) -> Self {
        DD::from(value)
    }
    fn inv(&self) -> Self {
        DD::div_dd(DD::from(1.0), *self)
    }
    fn to_f64(&self) -> f64 {
        self.hi
    }
    fn abs(&self) -> Self {
        if self.hi < 0.0 || (self.hi == 0.0 && self.lo < 0.0) {
            self.neg_dd()
        } else {
            *self
        }
    }
}
