#![allow(dead_code, unused_imports, unused_variables, clippy::all)]
//! mtverif — runtime-monitoring harness for momtrop.
//! usage: mtverif <ID> [--tier quick|thorough] [--replay file] [--seed n]
mod checks;
mod gen;
mod oracle;
mod run;
mod scalar;
mod setup;
mod special;
mod util;

use std::time::Instant;
use util::*;

fn main() {
    let args: Vec<String> = std::env::args().collect();
    if args.len() < 2 {
        eprintln!("usage: mtverif <ID> [--tier quick|thorough] [--replay file] [--seed n]");
        std::process::exit(2);
    }
    if args[1] == "--child-build" {
        std::process::exit(checks::c05::child_main());
    }
    if args[1].starts_with("MIRI-") {
        install_panic_hook();
        let code = match args[1].as_str() {
            "MIRI-purity" => checks::miri_entry::purity(if cfg!(miri) { 3 } else { 8 }, if cfg!(miri) { 3 } else { 12 }),
            "MIRI-matrices" => checks::miri_entry::matrices(),
            "MIRI-vectors" => checks::miri_entry::vectors(),
            "MIRI-tables" => checks::miri_entry::tables(),
            _ => 2,
        };
        std::process::exit(code);
    }
    if args[1] == "--quadtest" {
        println!("quadrature self-test: max relative error {:e}", special::quadrature_self_test());
        return;
    }
    if args[1] == "--gamma" {
        let a: f64 = args[2].parse().unwrap();
        let p: f64 = args[3].parse().unwrap();
        println!("a={} p={:e} -> {:?}  (P at result: {:?})", a, p, checks::c12::call(a, p), match checks::c12::call(a, p) { checks::c12::GOut::Ok(l) => special::gamma_pq(a, l).0, _ => f64::NAN });
        return;
    }
    if args[1] == "--child-probe" {
        std::process::exit(checks::c17::child_main());
    }
    if args[1] == "--child-big" {
        std::process::exit(checks::c05::child_big(args[2].parse().unwrap_or(64)));
    }
    let id = args[1].clone();
    let mut tier = match std::env::var("VERIF_TIER").as_deref() {
        Ok("thorough") => Tier::Thorough,
        _ => Tier::Quick,
    };
    let mut seed: u64 = std::env::var("VERIF_SEED").ok().and_then(|s| s.trim().parse::<i64>().ok()).map(|x| x as u64).unwrap_or(1);
    let mut only_item = None;
    let mut i = 2;
    while i < args.len() {
        match args[i].as_str() {
            "--tier" => {
                i += 1;
                tier = if args.get(i).map(|s| s.as_str()) == Some("thorough") { Tier::Thorough } else { Tier::Quick };
            }
            "--seed" => {
                i += 1;
                seed = args[i].parse::<i64>().unwrap_or(1) as u64;
            }
            "--replay" => {
                i += 1;
                let text = std::fs::read_to_string(&args[i]).unwrap_or_else(|e| {
                    eprintln!("cannot read replay file: {}", e);
                    std::process::exit(2)
                });
                let v: serde_json::Value = serde_json::from_str(&text).unwrap_or_else(|e| {
                    eprintln!("bad replay file: {}", e);
                    std::process::exit(2)
                });
                seed = v["seed"].as_u64().unwrap_or(1);
                tier = if v["tier"].as_str() == Some("thorough") { Tier::Thorough } else { Tier::Quick };
                only_item = v["item"].as_u64();
            }
            "--item" => {
                i += 1;
                only_item = args[i].parse::<u64>().ok();
            }
            _ => {}
        }
        i += 1;
    }
    let root = std::env::var("VERIF_ROOT").unwrap_or_else(|_| "/verif".to_string());
    let threads = std::env::var("VERIF_THREADS").ok().and_then(|s| s.parse().ok()).unwrap_or_else(|| {
        std::thread::available_parallelism().map(|n| n.get()).unwrap_or(4)
    });
    let scale = std::env::var("VERIF_SCALE").ok().and_then(|s| s.parse().ok()).unwrap_or(1.0);
    let ctx = Ctx { id: id.clone(), tier, seed, root, threads, only_item, scale, start: Instant::now() };
    capture_stdout();
    install_panic_hook();
    let code = checks::dispatch(&ctx);
    std::process::exit(code);
}
