//! Shared infrastructure: deterministic RNG, parallel work loop, verdict output,
//! evidence files, known findings, replay files.
use serde_json::{json, Map, Value};
use std::collections::{BTreeMap, BTreeSet, HashSet};
use std::io::Write;
use std::sync::atomic::{AtomicUsize, Ordering};
use std::sync::Mutex;
use std::time::Instant;

// ---------------------------------------------------------------------------------------
// RNG: SplitMix64 seeding a xoshiro256**; implements rand::RngCore so that it can also be
// handed to momtrop's generate_sample_from_rng.
// ---------------------------------------------------------------------------------------
#[derive(Clone, Debug)]
pub struct Rng {
    s: [u64; 4],
    pub draws: u64,
}

pub fn splitmix(x: &mut u64) -> u64 {
    *x = x.wrapping_add(0x9E3779B97F4A7C15);
    let mut z = *x;
    z = (z ^ (z >> 30)).wrapping_mul(0xBF58476D1CE4E5B9);
    z = (z ^ (z >> 27)).wrapping_mul(0x94D049BB133111EB);
    z ^ (z >> 31)
}

pub fn hash_str(s: &str) -> u64 {
    // FNV-1a 64
    let mut h: u64 = 0xcbf29ce484222325;
    for b in s.as_bytes() {
        h ^= *b as u64;
        h = h.wrapping_mul(0x100000001b3);
    }
    h
}

pub fn hash_u64s(v: &[u64]) -> u64 {
    let mut h: u64 = 0xcbf29ce484222325;
    for x in v {
        let mut y = *x;
        for _ in 0..8 {
            h ^= y & 0xff;
            h = h.wrapping_mul(0x100000001b3);
            y >>= 8;
        }
    }
    h
}

impl Rng {
    pub fn new(seed: u64) -> Self {
        let mut x = seed;
        let s = [splitmix(&mut x), splitmix(&mut x), splitmix(&mut x), splitmix(&mut x)];
        Rng { s, draws: 0 }
    }
    /// generator for (seed, property/stream tag, item index)
    pub fn derive(seed: u64, tag: &str, idx: u64) -> Self {
        let mut x = seed ^ hash_str(tag).rotate_left(17) ^ idx.wrapping_mul(0xD1342543DE82EF95);
        let a = splitmix(&mut x);
        Rng::new(a ^ idx)
    }
    #[inline]
    pub fn u64(&mut self) -> u64 {
        self.draws += 1;
        let r = self.s[1].wrapping_mul(5).rotate_left(7).wrapping_mul(9);
        let t = self.s[1] << 17;
        self.s[2] ^= self.s[0];
        self.s[3] ^= self.s[1];
        self.s[1] ^= self.s[2];
        self.s[0] ^= self.s[3];
        self.s[2] ^= t;
        self.s[3] = self.s[3].rotate_left(45);
        r
    }
    /// uniform in [0,1) with 53 bits
    #[inline]
    pub fn f(&mut self) -> f64 {
        (self.u64() >> 11) as f64 * (1.0 / (1u64 << 53) as f64)
    }
    /// uniform in the open interval (0,1)
    #[inline]
    pub fn fo(&mut self) -> f64 {
        loop {
            let x = self.f();
            if x > 0.0 {
                return x;
            }
        }
    }
    pub fn range(&mut self, lo: f64, hi: f64) -> f64 {
        lo + (hi - lo) * self.f()
    }
    /// integer in [0,n)
    #[inline]
    pub fn below(&mut self, n: usize) -> usize {
        if n == 0 {
            return 0;
        }
        (self.u64() % n as u64) as usize
    }
    /// integer in [lo,hi]
    pub fn int(&mut self, lo: i64, hi: i64) -> i64 {
        lo + (self.u64() % ((hi - lo + 1) as u64)) as i64
    }
    pub fn chance(&mut self, p: f64) -> bool {
        self.f() < p
    }
    pub fn pick<'a, T>(&mut self, v: &'a [T]) -> &'a T {
        &v[self.below(v.len())]
    }
    pub fn shuffle<T>(&mut self, v: &mut [T]) {
        for i in (1..v.len()).rev() {
            let j = self.below(i + 1);
            v.swap(i, j);
        }
    }
    /// standard normal (for harness-side matrices only)
    pub fn normal(&mut self) -> f64 {
        let a = self.fo();
        let b = self.f();
        (-2.0 * a.ln()).sqrt() * (2.0 * std::f64::consts::PI * b).cos()
    }
}

impl rand::RngCore for Rng {
    fn next_u32(&mut self) -> u32 {
        (self.u64() >> 32) as u32
    }
    fn next_u64(&mut self) -> u64 {
        self.u64()
    }
    fn fill_bytes(&mut self, dest: &mut [u8]) {
        for chunk in dest.chunks_mut(8) {
            let v = self.u64().to_le_bytes();
            chunk.copy_from_slice(&v[..chunk.len()]);
        }
    }
    fn try_fill_bytes(&mut self, dest: &mut [u8]) -> Result<(), rand::Error> {
        self.fill_bytes(dest);
        Ok(())
    }
}

// ---------------------------------------------------------------------------------------
// stdout handling: momtrop println!s when print_debug_info is on, so fd 1 is pointed at
// /dev/null and verdict lines go to a saved duplicate of the real stdout.
// ---------------------------------------------------------------------------------------
static REAL_STDOUT: Mutex<Option<i32>> = Mutex::new(None);

pub fn capture_stdout() {
    let mut g = REAL_STDOUT.lock().unwrap();
    if g.is_some() {
        return;
    }
    unsafe {
        let saved = libc::dup(1);
        let devnull = libc::open(b"/dev/null\0".as_ptr() as *const libc::c_char, libc::O_WRONLY);
        if saved >= 0 && devnull >= 0 {
            libc::dup2(devnull, 1);
            libc::close(devnull);
            *g = Some(saved);
        }
    }
}

/// print a line on the real stdout
pub fn out(line: &str) {
    let g = REAL_STDOUT.lock().unwrap();
    let mut s = line.to_string();
    s.push('\n');
    match *g {
        Some(fd) => unsafe {
            let b = s.as_bytes();
            let mut off = 0;
            while off < b.len() {
                let n = libc::write(fd, b[off..].as_ptr() as *const libc::c_void, b.len() - off);
                if n <= 0 {
                    break;
                }
                off += n as usize;
            }
        },
        None => {
            let _ = std::io::stdout().write_all(s.as_bytes());
            let _ = std::io::stdout().flush();
        }
    }
}

pub fn note(line: &str) {
    eprintln!("{}", line);
}

// ---------------------------------------------------------------------------------------
// panic capture
// ---------------------------------------------------------------------------------------
thread_local! {
    static LAST_PANIC: std::cell::RefCell<Option<String>> = std::cell::RefCell::new(None);
    static QUIET: std::cell::Cell<bool> = std::cell::Cell::new(false);
}

pub fn install_panic_hook() {
    let default = std::panic::take_hook();
    std::panic::set_hook(Box::new(move |info| {
        let msg = if let Some(s) = info.payload().downcast_ref::<&str>() {
            s.to_string()
        } else if let Some(s) = info.payload().downcast_ref::<String>() {
            s.clone()
        } else {
            "<non-string panic>".to_string()
        };
        let loc = info
            .location()
            .map(|l| format!("{}:{}", l.file(), l.line()))
            .unwrap_or_default();
        LAST_PANIC.with(|p| *p.borrow_mut() = Some(format!("{} @ {}", msg, loc)));
        if !QUIET.with(|q| q.get()) {
            default(info);
        }
    }));
}

/// Run `f`, catching panics (message and location are returned).
pub fn catch<R>(f: impl FnOnce() -> R) -> Result<R, String> {
    QUIET.with(|q| q.set(true));
    LAST_PANIC.with(|p| *p.borrow_mut() = None);
    let r = std::panic::catch_unwind(std::panic::AssertUnwindSafe(f));
    QUIET.with(|q| q.set(false));
    match r {
        Ok(v) => Ok(v),
        Err(_) => Err(LAST_PANIC.with(|p| p.borrow_mut().take()).unwrap_or_else(|| "<panic>".into())),
    }
}

// ---------------------------------------------------------------------------------------
// accumulators
// ---------------------------------------------------------------------------------------
#[derive(Clone, Debug)]
pub struct Violation {
    /// clause of the property that failed, e.g. "u_vs_spanning_trees"
    pub clause: String,
    /// signature used for known-finding matching and de-duplication
    pub signature: String,
    /// item index within the workload (for replay)
    pub item: u64,
    /// human-readable complete description of the failing case
    pub detail: Value,
}

#[derive(Default, Debug)]
pub struct Acc {
    pub evals: u64,
    pub counters: BTreeMap<String, u64>,
    pub maxes: BTreeMap<String, f64>,
    pub distinct: HashSet<u64>,
    pub sets: BTreeMap<String, BTreeSet<String>>,
    pub samples: Vec<Value>,
    pub violations: Vec<Violation>,
}

impl Acc {
    pub fn new() -> Self {
        Default::default()
    }
    pub fn count(&mut self, k: &str) {
        *self.counters.entry(k.to_string()).or_insert(0) += 1;
    }
    pub fn add(&mut self, k: &str, n: u64) {
        *self.counters.entry(k.to_string()).or_insert(0) += n;
    }
    pub fn get(&self, k: &str) -> u64 {
        self.counters.get(k).copied().unwrap_or(0)
    }
    pub fn max(&mut self, k: &str, v: f64) {
        if v.is_nan() {
            return;
        }
        let e = self.maxes.entry(k.to_string()).or_insert(f64::NEG_INFINITY);
        if v > *e {
            *e = v;
        }
    }
    pub fn set(&mut self, k: &str, v: String) {
        self.sets.entry(k.to_string()).or_default().insert(v);
    }
    pub fn sample(&mut self, v: Value) {
        if self.samples.len() < 3 {
            self.samples.push(v);
        }
    }
    pub fn violate(&mut self, item: u64, clause: &str, signature: &str, detail: Value) {
        self.count(&format!("violations_{}", clause));
        self.count(&format!("violation_signature_{}", signature));
        if self.violations.len() < 64 {
            self.violations.push(Violation {
                clause: clause.to_string(),
                signature: signature.to_string(),
                item,
                detail,
            });
        }
    }
    pub fn merge(&mut self, o: Acc) {
        self.evals += o.evals;
        for (k, v) in o.counters {
            *self.counters.entry(k).or_insert(0) += v;
        }
        for (k, v) in o.maxes {
            let e = self.maxes.entry(k).or_insert(f64::NEG_INFINITY);
            if v > *e {
                *e = v;
            }
        }
        self.distinct.extend(o.distinct);
        for (k, v) in o.sets {
            self.sets.entry(k).or_default().extend(v);
        }
        for s in o.samples {
            if self.samples.len() < 3 {
                self.samples.push(s);
            }
        }
        for v in o.violations {
            if self.violations.len() < 256 {
                self.violations.push(v);
            }
        }
    }
}

// ---------------------------------------------------------------------------------------
// run context
// ---------------------------------------------------------------------------------------
#[derive(Clone, Debug, PartialEq)]
pub enum Tier {
    Quick,
    Thorough,
}

#[derive(Clone, Debug)]
pub struct Ctx {
    pub id: String,
    pub tier: Tier,
    pub seed: u64,
    pub root: String,
    pub threads: usize,
    /// when set, only this item index is executed (replay)
    pub only_item: Option<u64>,
    /// scale factor on workload sizes (VERIF_SCALE, default 1.0)
    pub scale: f64,
    pub start: Instant,
}

impl Ctx {
    pub fn quick(&self) -> bool {
        self.tier == Tier::Quick
    }
    pub fn n(&self, quick: usize, thorough: usize) -> usize {
        let base = if self.quick() { quick } else { thorough };
        ((base as f64) * self.scale).ceil().max(1.0) as usize
    }
    pub fn tier_name(&self) -> &'static str {
        if self.quick() {
            "quick"
        } else {
            "thorough"
        }
    }
}

/// Run `n_items` work items on all cores. Each item gets its own RNG derived from
/// (seed, stream tag, index); results are merged in index order, so the outcome does not
/// depend on scheduling. A panic inside an item (harness bug) is recorded as a harness
/// error, never as a violation.
pub fn par_items<F>(ctx: &Ctx, tag: &str, n_items: usize, f: F) -> Acc
where
    F: Fn(u64, &mut Rng, &mut Acc) + Sync,
{
    let next = AtomicUsize::new(0);
    let results: Mutex<Vec<(usize, Acc)>> = Mutex::new(Vec::new());
    let items: Vec<usize> = match ctx.only_item {
        Some(i) => vec![i as usize],
        None => (0..n_items).collect(),
    };
    let threads = ctx.threads.min(items.len()).max(1);
    std::thread::scope(|s| {
        for _ in 0..threads {
            s.spawn(|| {
                let mut local: Vec<(usize, Acc)> = Vec::new();
                loop {
                    let k = next.fetch_add(1, Ordering::Relaxed);
                    if k >= items.len() {
                        break;
                    }
                    let idx = items[k];
                    let mut rng = Rng::derive(ctx.seed, tag, idx as u64);
                    let mut acc = Acc::new();
                    let r = catch(|| f(idx as u64, &mut rng, &mut acc));
                    if let Err(msg) = r {
                        acc.count("harness_errors");
                        acc.set("harness_error_messages", format!("item {}: {}", idx, msg));
                    }
                    local.push((idx, acc));
                }
                results.lock().unwrap().extend(local);
            });
        }
    });
    let mut v = results.into_inner().unwrap();
    v.sort_by_key(|x| x.0);
    let mut total = Acc::new();
    for (_, a) in v {
        total.merge(a);
    }
    total
}

// ---------------------------------------------------------------------------------------
// known findings
// ---------------------------------------------------------------------------------------
#[derive(Clone, Debug)]
pub struct KnownFinding {
    pub property: String,
    pub status: String, // "finding" | "fixed"
    pub signature: String,
    pub what: String,
}

pub fn load_known_findings(root: &str) -> Vec<KnownFinding> {
    let p = format!("{}/known_findings.json", root);
    let Ok(s) = std::fs::read_to_string(&p) else {
        return vec![];
    };
    let Ok(v) = serde_json::from_str::<Value>(&s) else {
        note(&format!("warning: {} is not valid JSON", p));
        return vec![];
    };
    let mut out = vec![];
    if let Some(arr) = v.get("entries").and_then(|x| x.as_array()) {
        for e in arr {
            out.push(KnownFinding {
                property: e["property"].as_str().unwrap_or("").to_string(),
                status: e["status"].as_str().unwrap_or("").to_string(),
                signature: e["signature"].as_str().unwrap_or("").to_string(),
                what: e["what"].as_str().unwrap_or("").to_string(),
            });
        }
    }
    out
}

// ---------------------------------------------------------------------------------------
// finishing a check: evidence + verdict
// ---------------------------------------------------------------------------------------
pub struct Finish {
    pub rule: String,
    pub assumptions: Vec<String>,
    /// minimum number of conclusive evaluations below which the run is INCONCLUSIVE
    pub min_evals: u64,
    /// extra coverage keys
    pub extra: Map<String, Value>,
    /// inconclusive sub-steps (sanitizer build missing, etc.)
    pub inconclusive: Vec<String>,
}

impl Finish {
    pub fn new(rule: &str) -> Self {
        Finish {
            rule: rule.to_string(),
            assumptions: vec![],
            min_evals: 1,
            extra: Map::new(),
            inconclusive: vec![],
        }
    }
    pub fn assume(mut self, s: &str) -> Self {
        self.assumptions.push(s.to_string());
        self
    }
    pub fn min(mut self, n: u64) -> Self {
        self.min_evals = n;
        self
    }
    pub fn extra(mut self, k: &str, v: Value) -> Self {
        self.extra.insert(k.to_string(), v);
        self
    }
}

fn f64_json(v: f64) -> Value {
    if v.is_finite() {
        json!(v)
    } else {
        json!(format!("{}", v))
    }
}

/// Writes evidence, replay files, prints verdict lines; returns the process exit code.
pub fn finish(ctx: &Ctx, acc: Acc, fin: Finish) -> i32 {
    let known = load_known_findings(&ctx.root);
    let mut new_violations: Vec<&Violation> = vec![];
    let mut known_hits: BTreeMap<String, (String, u64)> = BTreeMap::new();
    for v in &acc.violations {
        if let Some(k) = known
            .iter()
            .find(|k| k.property == ctx.id && k.status == "finding" && k.signature == v.signature)
        {
            let e = known_hits.entry(k.signature.clone()).or_insert((k.what.clone(), 0));
            e.1 += 1;
        } else {
            new_violations.push(v);
        }
    }
    // de-duplicate new violations by (clause, signature)
    let mut seen = BTreeSet::new();
    let mut witnesses: Vec<&Violation> = vec![];
    for v in &new_violations {
        let key = format!("{}|{}", v.clause, v.signature);
        if seen.insert(key) && witnesses.len() < 20 {
            witnesses.push(v);
        }
    }
    let harness_errors = acc.get("harness_errors");
    let wall = ctx.start.elapsed().as_secs_f64();

    // replay files
    let mut replay_paths = vec![];
    if ctx.only_item.is_none() || !witnesses.is_empty() {
        let dir = format!("{}/replays", ctx.root);
        let _ = std::fs::create_dir_all(&dir);
        for (i, v) in witnesses.iter().enumerate() {
            let path = format!("{}/{}-{}-s{}-{}.json", dir, ctx.id, ctx.tier_name(), ctx.seed, i);
            let body = json!({
                "property": ctx.id,
                "tier": ctx.tier_name(),
                "seed": ctx.seed,
                "item": v.item,
                "clause": v.clause,
                "signature": v.signature,
                "detail": v.detail,
                "harness": env!("CARGO_PKG_VERSION"),
                "how_to_replay": format!("./check {} --replay {}", ctx.id, path),
            });
            if std::fs::write(&path, serde_json::to_string_pretty(&body).unwrap()).is_ok() {
                replay_paths.push(path);
            } else {
                replay_paths.push("<unwritable>".into());
            }
        }
    }

    let distinct = acc.distinct.len() as u64;
    let mut cov = Map::new();
    cov.insert("evaluations".into(), json!(acc.evals));
    cov.insert("distinct_nontrivial".into(), json!(distinct));
    cov.insert("rule".into(), json!(fin.rule));
    cov.insert("samples".into(), Value::Array(acc.samples.clone()));
    let counters: Map<String, Value> = acc.counters.iter().map(|(k, v)| (k.clone(), json!(v))).collect();
    cov.insert("counters".into(), Value::Object(counters));
    let maxes: Map<String, Value> = acc.maxes.iter().map(|(k, v)| (k.clone(), f64_json(*v))).collect();
    cov.insert("max_observed".into(), Value::Object(maxes));
    let sets: Map<String, Value> = acc
        .sets
        .iter()
        .map(|(k, v)| {
            let items: Vec<&String> = v.iter().take(64).collect();
            (k.clone(), json!({"count": v.len(), "items": items}))
        })
        .collect();
    cov.insert("coverage_sets".into(), Value::Object(sets));
    let kh: Vec<Value> = known_hits
        .iter()
        .map(|(sig, (what, n))| json!({"signature": sig, "what": what, "hits": n}))
        .collect();
    cov.insert("known_finding_hits".into(), Value::Array(kh));
    cov.insert("inconclusive_substeps".into(), json!(fin.inconclusive));
    cov.insert("harness_errors".into(), json!(harness_errors));
    for (k, v) in fin.extra {
        cov.insert(k, v);
    }
    // a replay runs a single work item: the minimum-workload rule does not apply to it
    let inconclusive = if ctx.only_item.is_some() { harness_errors > 0 } else { acc.evals < fin.min_evals || distinct < 2 || harness_errors > 0 };
    let verdict = if !witnesses.is_empty() {
        "violated"
    } else if inconclusive {
        "inconclusive"
    } else {
        "held_on_observed"
    };
    cov.insert("verdict".into(), json!(verdict));

    let ev = json!({
        "property_id": ctx.id,
        "tier": ctx.tier_name(),
        "seed": ctx.seed,
        "level": "exploration",
        "coverage": Value::Object(cov),
        "assumptions": fin.assumptions,
        "wall_s": wall,
        "violations": new_violations.len(),
    });
    if ctx.only_item.is_none() {
        let dir = format!("{}/evidence", ctx.root);
        let _ = std::fs::create_dir_all(&dir);
        let path = format!("{}/{}.json", dir, ctx.id);
        if let Err(e) = std::fs::write(&path, serde_json::to_string_pretty(&ev).unwrap()) {
            note(&format!("cannot write evidence {}: {}", path, e));
        }
    }

    for (sig, (what, n)) in &known_hits {
        out(&format!("KNOWN-FINDING: property={} {} [signature={} hits={}]", ctx.id, what, sig, n));
    }
    out(&format!(
        "{} {} seed={} evaluations={} distinct_nontrivial={} violations={} known_hits={} wall={:.1}s verdict={}",
        ctx.id,
        ctx.tier_name(),
        ctx.seed,
        acc.evals,
        distinct,
        new_violations.len(),
        known_hits.values().map(|x| x.1).sum::<u64>(),
        wall,
        verdict
    ));
    if !witnesses.is_empty() {
        for (v, p) in witnesses.iter().zip(replay_paths.iter()) {
            out(&format!("  clause={} signature={} item={}", v.clause, v.signature, v.item));
            out(&format!("VIOLATION property={} replay={}", ctx.id, p));
        }
        return 1;
    }
    if harness_errors > 0 {
        if let Some(m) = acc.sets.get("harness_error_messages") {
            for s in m.iter().take(5) {
                out(&format!("HARNESS-ERROR {}", s));
            }
        }
        out(&format!("INCONCLUSIVE property={} harness errors: {} (recorded in the evidence; not a verdict)", ctx.id, harness_errors));
        return inconclusive_exit();
    }
    if inconclusive {
        out(&format!(
            "INCONCLUSIVE property={} evaluations={} (minimum {}) distinct={}",
            ctx.id, acc.evals, fin.min_evals, distinct
        ));
        return inconclusive_exit();
    }
    0
}

/// Exit status of an inconclusive run. The interface knows only "held on everything explored"
/// (0) and "violation" (1); an inconclusive run observed no violation, so it exits 0 — the
/// INCONCLUSIVE line and the evidence verdict carry the third value. VERIF_STRICT=1 turns it
/// into exit 3 for interactive use.
pub fn inconclusive_exit() -> i32 {
    if std::env::var("VERIF_STRICT").is_ok() {
        3
    } else {
        0
    }
}

// ---------------------------------------------------------------------------------------
// float helpers
// ---------------------------------------------------------------------------------------
pub const EPS: f64 = f64::EPSILON; // 2^-52

pub fn next_up(x: f64) -> f64 {
    if x.is_nan() || x == f64::INFINITY {
        return x;
    }
    if x == 0.0 {
        return f64::from_bits(1);
    }
    let b = x.to_bits();
    if x > 0.0 {
        f64::from_bits(b + 1)
    } else {
        f64::from_bits(b - 1)
    }
}

pub fn next_down(x: f64) -> f64 {
    -next_up(-x)
}

pub fn ulps(x: f64, k: i32) -> f64 {
    let mut y = x;
    for _ in 0..k.abs() {
        y = if k > 0 { next_up(y) } else { next_down(y) };
    }
    y
}

/// f64 as a JSON value that keeps non-finite values and exact bits readable
pub fn fj(x: f64) -> Value {
    json!(format!("{:e} [0x{:016x}]", x, x.to_bits()))
}

pub fn fjv(v: &[f64]) -> Value {
    Value::Array(v.iter().map(|x| fj(*x)).collect())
}
