//! Dynamic (non-const-generic) front end to momtrop: every check calls the real library
//! through this module, for D = 1..6 and any scalar type implementing MomTropFloat.
use crate::util::catch;
use momtrop::float::MomTropFloat;
use momtrop::matrix::SquareMatrix;
use momtrop::vector::Vector;
use momtrop::{Edge, Graph, SampleGenerator, TropicalSamplingSettings};
use serde::{Deserialize, Serialize};
use serde_json::Value;
use std::cell::RefCell;

#[derive(Clone, Debug, Serialize, Deserialize, PartialEq)]
pub struct GraphSpec {
    pub edges: Vec<(u8, u8)>,
    pub weights: Vec<f64>,
    pub massive: Vec<bool>,
    pub externals: Vec<u8>,
    pub d: usize,
}

impl GraphSpec {
    pub fn to_momtrop(&self) -> Graph {
        Graph {
            edges: (0..self.edges.len())
                .map(|i| Edge {
                    vertices: self.edges[i],
                    is_massive: self.massive[i],
                    weight: self.weights[i],
                })
                .collect(),
            externals: self.externals.clone(),
        }
    }
    pub fn ne(&self) -> usize {
        self.edges.len()
    }
    pub fn describe(&self) -> Value {
        serde_json::json!({
            "edges": self.edges.iter().map(|e| format!("{}-{}", e.0, e.1)).collect::<Vec<_>>(),
            "weights": self.weights,
            "massive": self.massive,
            "externals": self.externals,
            "D": self.d,
        })
    }
}

#[derive(Clone, Debug)]
pub struct Settings {
    pub stability: Option<f64>,
    pub debug: bool,
    pub metadata: bool,
}

impl Settings {
    pub fn plain() -> Self {
        Settings { stability: None, debug: false, metadata: false }
    }
    pub fn full() -> Self {
        Settings { stability: None, debug: true, metadata: true }
    }
    pub fn meta() -> Self {
        Settings { stability: None, debug: false, metadata: true }
    }
    pub fn to_momtrop(&self) -> TropicalSamplingSettings {
        TropicalSamplingSettings {
            matrix_stability_test: self.stability,
            print_debug_info: self.debug,
            return_metadata: self.metadata,
        }
    }
}

#[derive(Clone, Debug)]
pub struct MetaOut<T> {
    pub q: Vec<Vec<T>>,
    pub lambda: T,
    pub l: Vec<Vec<T>>,
    pub det: T,
    pub inv: Vec<Vec<T>>,
    pub qt: Vec<Vec<T>>,
    pub qt_inv: Vec<Vec<T>>,
    pub u_vectors: Vec<Vec<T>>,
    pub shift: Vec<Vec<T>>,
}

#[derive(Clone, Debug)]
pub struct SampleOut<T> {
    pub k: Vec<Vec<T>>,
    pub u_trop: T,
    pub v_trop: T,
    pub u: T,
    pub v: T,
    pub jacobian: T,
    pub meta: Option<MetaOut<T>>,
}

#[derive(Clone, Debug)]
pub enum Outcome<T> {
    Ok(SampleOut<T>),
    /// "MatrixError(ZeroDet)", "MatrixError(Unstable)", "GammaError(GammaError)"
    Err(String),
    Panic(String),
}

impl<T> Outcome<T> {
    pub fn ok(&self) -> Option<&SampleOut<T>> {
        match self {
            Outcome::Ok(s) => Some(s),
            _ => None,
        }
    }
    pub fn kind(&self) -> String {
        match self {
            Outcome::Ok(_) => "Ok".into(),
            Outcome::Err(e) => format!("Err:{}", e),
            Outcome::Panic(_) => "Panic".into(),
        }
    }
}

#[derive(Clone, Debug)]
pub struct Run<T> {
    pub outcome: Outcome<T>,
    /// debug-log records (feature `log`, print_debug_info = true), in emission order
    pub log: Vec<(String, Value)>,
}

impl<T> Run<T> {
    pub fn log_f64(&self, key: &str) -> Option<f64> {
        self.log.iter().find(|(k, _)| k == key).map(|(_, v)| v.as_f64().unwrap_or(f64::NAN))
    }
    pub fn log_vec(&self, key: &str) -> Option<Vec<f64>> {
        self.log.iter().find(|(k, _)| k == key).and_then(|(_, v)| {
            v.as_array().map(|a| a.iter().map(|x| x.as_f64().unwrap_or(f64::NAN)).collect())
        })
    }
}

pub struct CapLogger {
    pub rec: RefCell<Vec<(String, Value)>>,
}

#[cfg(feature = "log")]
impl momtrop::log::Logger for CapLogger {
    fn write<S: Serialize>(&self, msg: &str, data: &S) {
        let v = serde_json::to_value(data).unwrap_or(Value::Null);
        self.rec.borrow_mut().push((msg.to_string(), v));
    }
}

pub fn mat_to_vecs<T: Clone>(m: &SquareMatrix<T>) -> Vec<Vec<T>> {
    let n = m.get_dim();
    (0..n).map(|i| (0..n).map(|j| m[(i, j)].clone()).collect()).collect()
}

fn vecs<T: MomTropFloat, const D: usize>(v: &[Vector<T, D>]) -> Vec<Vec<T>> {
    v.iter().map(|x| x.get_elements().to_vec()).collect()
}

fn convert<T: MomTropFloat, const D: usize>(r: momtrop::TropicalSampleResult<T, D>) -> SampleOut<T> {
    SampleOut {
        k: vecs(&r.loop_momenta),
        u_trop: r.u_trop,
        v_trop: r.v_trop,
        u: r.u,
        v: r.v,
        jacobian: r.jacobian,
        meta: r.metadata.map(|m| MetaOut {
            q: vecs(&m.q_vectors),
            lambda: m.lambda,
            l: mat_to_vecs(&m.l_matrix),
            det: m.decompoisiton_result.determinant.clone(),
            inv: mat_to_vecs(&m.decompoisiton_result.inverse),
            qt: mat_to_vecs(&m.decompoisiton_result.q_transposed),
            qt_inv: mat_to_vecs(&m.decompoisiton_result.q_transposed_inverse),
            u_vectors: vecs(&m.u_vectors),
            shift: vecs(&m.shift),
        }),
    }
}

fn edge_data<T: MomTropFloat, const D: usize>(
    masses: &[Option<T>],
    shifts: &[Vec<T>],
) -> Vec<(Option<T>, Vector<T, D>)> {
    masses
        .iter()
        .zip(shifts.iter())
        .map(|(m, s)| (m.clone(), Vector::<T, D>::from_vec(s.clone())))
        .collect()
}

fn sample_d<T: MomTropFloat, const D: usize>(
    s: &SampleGenerator<D>,
    x: &[T],
    masses: &[Option<T>],
    shifts: &[Vec<T>],
    settings: &Settings,
) -> Run<T> {
    let logger = CapLogger { rec: RefCell::new(vec![]) };
    let st = settings.to_momtrop();
    let ed = edge_data::<T, D>(masses, shifts);
    let r = catch(|| {
        s.generate_sample_from_x_space_point(
            x,
            ed,
            &st,
            #[cfg(feature = "log")]
            &logger,
        )
    });
    let outcome = match r {
        Ok(Ok(res)) => Outcome::Ok(convert(res)),
        Ok(Err(e)) => Outcome::Err(format!("{:?}", e)),
        Err(p) => Outcome::Panic(p),
    };
    Run { outcome, log: logger.rec.into_inner() }
}

fn sample_rng_d<T: MomTropFloat, R: rand::Rng, const D: usize>(
    s: &SampleGenerator<D>,
    masses: &[Option<T>],
    shifts: &[Vec<T>],
    settings: &Settings,
    rng: &mut R,
) -> Run<T> {
    let logger = CapLogger { rec: RefCell::new(vec![]) };
    let st = settings.to_momtrop();
    let ed = edge_data::<T, D>(masses, shifts);
    let r = catch(|| {
        s.generate_sample_from_rng(
            ed,
            &st,
            rng,
            #[cfg(feature = "log")]
            &logger,
        )
    });
    let outcome = match r {
        Ok(Ok(res)) => Outcome::Ok(convert(res)),
        Ok(Err(e)) => Outcome::Err(format!("{:?}", e)),
        Err(p) => Outcome::Panic(p),
    };
    Run { outcome, log: logger.rec.into_inner() }
}

#[derive(Clone, Debug)]
pub enum DynSampler {
    D1(SampleGenerator<1>),
    D2(SampleGenerator<2>),
    D3(SampleGenerator<3>),
    D4(SampleGenerator<4>),
    D5(SampleGenerator<5>),
    D6(SampleGenerator<6>),
}

macro_rules! each_d {
    ($self:expr, $s:ident => $body:expr) => {
        match $self {
            DynSampler::D1($s) => $body,
            DynSampler::D2($s) => $body,
            DynSampler::D3($s) => $body,
            DynSampler::D4($s) => $body,
            DynSampler::D5($s) => $body,
            DynSampler::D6($s) => $body,
        }
    };
}

/// Result of build_sampler under catch_unwind
pub enum Build {
    Ok(DynSampler),
    Err(String),
    Panic(String),
}

impl Build {
    pub fn ok(self) -> Option<DynSampler> {
        match self {
            Build::Ok(s) => Some(s),
            _ => None,
        }
    }
}

impl DynSampler {
    pub fn build(spec: &GraphSpec, signature: &[Vec<isize>]) -> Build {
        let sig = signature.to_vec();
        let g = spec.to_momtrop();
        let r = catch(move || -> Result<DynSampler, String> {
            Ok(match spec.d {
                1 => DynSampler::D1(g.build_sampler::<1>(sig)?),
                2 => DynSampler::D2(g.build_sampler::<2>(sig)?),
                3 => DynSampler::D3(g.build_sampler::<3>(sig)?),
                4 => DynSampler::D4(g.build_sampler::<4>(sig)?),
                5 => DynSampler::D5(g.build_sampler::<5>(sig)?),
                6 => DynSampler::D6(g.build_sampler::<6>(sig)?),
                _ => panic!("harness: D out of range"),
            })
        });
        match r {
            Ok(Ok(s)) => Build::Ok(s),
            Ok(Err(e)) => Build::Err(e),
            Err(p) => Build::Panic(p),
        }
    }
    pub fn d(&self) -> usize {
        match self {
            DynSampler::D1(_) => 1,
            DynSampler::D2(_) => 2,
            DynSampler::D3(_) => 3,
            DynSampler::D4(_) => 4,
            DynSampler::D5(_) => 5,
            DynSampler::D6(_) => 6,
        }
    }
    pub fn json(&self) -> Value {
        each_d!(self, s => serde_json::to_value(s).unwrap())
    }
    pub fn json_string(&self) -> String {
        each_d!(self, s => serde_json::to_string(s).unwrap())
    }
    pub fn debug_string(&self) -> String {
        each_d!(self, s => format!("{:?}", s))
    }
    /// the subgraph table as seen from outside: from the serde serialisation, or - if a change of
    /// the serialised layout hides it there - from the derived Debug output
    pub fn table_view(&self) -> Option<TableView> {
        TableView::from_json(&self.json()).or_else(|| TableView::from_debug(&self.debug_string()))
    }
    pub fn from_json_str(d: usize, text: &str) -> Result<DynSampler, String> {
        Ok(match d {
            1 => DynSampler::D1(serde_json::from_str(text).map_err(|e| e.to_string())?),
            2 => DynSampler::D2(serde_json::from_str(text).map_err(|e| e.to_string())?),
            3 => DynSampler::D3(serde_json::from_str(text).map_err(|e| e.to_string())?),
            4 => DynSampler::D4(serde_json::from_str(text).map_err(|e| e.to_string())?),
            5 => DynSampler::D5(serde_json::from_str(text).map_err(|e| e.to_string())?),
            6 => DynSampler::D6(serde_json::from_str(text).map_err(|e| e.to_string())?),
            _ => return Err("D out of range".into()),
        })
    }
    pub fn cbor(&self) -> Vec<u8> {
        let mut buf = vec![];
        each_d!(self, s => ciborium::ser::into_writer(s, &mut buf).unwrap());
        buf
    }
    pub fn from_cbor(d: usize, bytes: &[u8]) -> Result<DynSampler, String> {
        Ok(match d {
            1 => DynSampler::D1(ciborium::de::from_reader(bytes).map_err(|e| e.to_string())?),
            2 => DynSampler::D2(ciborium::de::from_reader(bytes).map_err(|e| e.to_string())?),
            3 => DynSampler::D3(ciborium::de::from_reader(bytes).map_err(|e| e.to_string())?),
            4 => DynSampler::D4(ciborium::de::from_reader(bytes).map_err(|e| e.to_string())?),
            5 => DynSampler::D5(ciborium::de::from_reader(bytes).map_err(|e| e.to_string())?),
            6 => DynSampler::D6(ciborium::de::from_reader(bytes).map_err(|e| e.to_string())?),
            _ => return Err("D out of range".into()),
        })
    }
    pub fn dimension(&self) -> usize {
        each_d!(self, s => s.get_dimension())
    }
    pub fn dod(&self) -> f64 {
        each_d!(self, s => s.get_dod())
    }
    pub fn num_edges(&self) -> usize {
        each_d!(self, s => s.get_num_edges())
    }
    pub fn edge_weights(&self) -> Vec<f64> {
        each_d!(self, s => s.iter_edge_weights().collect())
    }
    pub fn smallest_dod(&self) -> f64 {
        each_d!(self, s => s.get_smallest_dod())
    }
    pub fn sample<T: MomTropFloat>(
        &self,
        x: &[T],
        masses: &[Option<T>],
        shifts: &[Vec<T>],
        settings: &Settings,
    ) -> Run<T> {
        each_d!(self, s => sample_d(s, x, masses, shifts, settings))
    }
    pub fn sample_rng<T: MomTropFloat, R: rand::Rng>(
        &self,
        masses: &[Option<T>],
        shifts: &[Vec<T>],
        settings: &Settings,
        rng: &mut R,
    ) -> Run<T> {
        each_d!(self, s => sample_rng_d(s, masses, shifts, settings, rng))
    }
}

/// Table view extracted from the sampler's serialisation.
#[derive(Clone, Debug)]
pub struct TableView {
    pub loop_number: Vec<u64>,
    pub spanning: Vec<bool>,
    pub j: Vec<f64>,
    pub dod: Vec<f64>,
    pub cached_factor: f64,
    pub dimension: u64,
    pub graph_dod: f64,
    pub num_loops: u64,
    pub num_massive: u64,
    pub signature: Vec<Vec<i64>>,
    pub topology: Vec<(u64, u64, u64, f64, bool)>,
    pub externals: Vec<u64>,
}

fn jf(v: &Value) -> f64 {
    v.as_f64().unwrap_or(f64::NAN)
}

/// value of `key: <value>` in a derived-Debug string, starting the search at `from`
fn dbg_field<'a>(text: &'a str, key: &str, from: usize) -> Option<(&'a str, usize)> {
    let pat = format!("{}: ", key);
    let i = text[from..].find(&pat)? + from + pat.len();
    let rest = &text[i..];
    let mut depth = 0i32;
    let mut end = rest.len();
    for (k, ch) in rest.char_indices() {
        match ch {
            '[' | '{' | '(' => depth += 1,
            ']' | '}' | ')' => {
                if depth == 0 {
                    end = k;
                    break;
                }
                depth -= 1;
            }
            ',' if depth == 0 => {
                end = k;
                break;
            }
            _ => {}
        }
    }
    Some((rest[..end].trim(), i + end))
}

fn dbg_f64(s: &str) -> f64 {
    s.trim().parse::<f64>().unwrap_or(f64::NAN)
}

impl TableView {
    /// fallback observation through `{:?}` (derived Debug of SampleGenerator)
    pub fn from_debug(text: &str) -> Option<TableView> {
        let tstart = text.find("table: TropicalSubgraphTable")?;
        let mut loop_number = vec![];
        let mut spanning = vec![];
        let mut j = vec![];
        let mut dod = vec![];
        let mut pos = tstart;
        while let Some(k) = text[pos..].find("TropicalSubgraphTableEntry {") {
            let at = pos + k;
            let (ln, p1) = dbg_field(text, "loop_number", at)?;
            let (sp, p2) = dbg_field(text, "mass_momentum_spanning", p1)?;
            let (jf, p3) = dbg_field(text, "j_function", p2)?;
            let (gd, p4) = dbg_field(text, "generalized_dod", p3)?;
            loop_number.push(ln.parse::<u64>().ok()?);
            spanning.push(sp == "true");
            j.push(dbg_f64(jf));
            dod.push(dbg_f64(gd));
            pos = p4;
        }
        if loop_number.is_empty() {
            return None;
        }
        let (dim, _) = dbg_field(text, "dimension", pos)?;
        let g0 = text.find("tropical_graph: TropicalGraph")?;
        let (gdod, _) = dbg_field(text, "dod", g0)?;
        let (nm, _) = dbg_field(text, "num_massive_edges", g0)?;
        let (nl, _) = dbg_field(text, "num_loops", g0)?;
        let (ext, _) = dbg_field(text, "external_vertices", g0)?;
        let (cf, _) = dbg_field(text, "cached_factor", g0)?;
        let mut topology = vec![];
        let mut p = g0;
        while let Some(k) = text[p..].find("TropicalEdge {") {
            let at = p + k;
            let (id, a1) = dbg_field(text, "edge_id", at)?;
            let (l, a2) = dbg_field(text, "left", a1)?;
            let (r, a3) = dbg_field(text, "right", a2)?;
            let (w, a4) = dbg_field(text, "weight", a3)?;
            let (m, a5) = dbg_field(text, "is_massive", a4)?;
            topology.push((id.parse().ok()?, l.parse().ok()?, r.parse().ok()?, dbg_f64(w), m == "true"));
            p = a5;
        }
        let (sig, _) = dbg_field(text, "loop_signature", 0)?;
        let signature: Vec<Vec<i64>> = sig
            .trim_start_matches('[')
            .trim_end_matches(']')
            .split("],")
            .map(|row| row.replace(['[', ']'], "").split(',').filter_map(|x| x.trim().parse::<i64>().ok()).collect::<Vec<i64>>())
            .collect();
        let signature = if sig.trim() == "[]" { vec![] } else { signature };
        Some(TableView {
            loop_number,
            spanning,
            j,
            dod,
            cached_factor: dbg_f64(cf),
            dimension: dim.parse().ok()?,
            graph_dod: dbg_f64(gdod),
            num_loops: nl.parse().ok()?,
            num_massive: nm.parse().ok()?,
            signature,
            topology,
            externals: ext.trim_start_matches('[').trim_end_matches(']').split(',').filter_map(|x| x.trim().parse::<u64>().ok()).collect(),
        })
    }
    pub fn from_json(v: &Value) -> Option<TableView> {
        let t = v.get("table")?;
        let entries = t.get("table")?.as_array()?;
        let tg = t.get("tropical_graph")?;
        Some(TableView {
            loop_number: entries.iter().map(|e| e["loop_number"].as_u64().unwrap_or(u64::MAX)).collect(),
            spanning: entries.iter().map(|e| e["mass_momentum_spanning"].as_bool().unwrap_or(false)).collect(),
            j: entries.iter().map(|e| jf(&e["j_function"])).collect(),
            dod: entries.iter().map(|e| jf(&e["generalized_dod"])).collect(),
            cached_factor: jf(&t["cached_factor"]),
            dimension: t["dimension"].as_u64()?,
            graph_dod: jf(&tg["dod"]),
            num_loops: tg["num_loops"].as_u64()?,
            num_massive: tg["num_massive_edges"].as_u64()?,
            signature: v["loop_signature"]
                .as_array()?
                .iter()
                .map(|r| r.as_array().map(|a| a.iter().map(|x| x.as_i64().unwrap_or(0)).collect()).unwrap_or_default())
                .collect(),
            topology: tg["topology"]
                .as_array()?
                .iter()
                .map(|e| {
                    (
                        e["edge_id"].as_u64().unwrap_or(u64::MAX),
                        e["left"].as_u64().unwrap_or(u64::MAX),
                        e["right"].as_u64().unwrap_or(u64::MAX),
                        jf(&e["weight"]),
                        e["is_massive"].as_bool().unwrap_or(false),
                    )
                })
                .collect(),
            externals: tg["external_vertices"].as_array()?.iter().map(|x| x.as_u64().unwrap_or(u64::MAX)).collect(),
        })
    }
}
