//! C16 — matrix failures are reported: singular gives ZeroDet, stability test is sound.
use crate::checks::c15::{decompose, spd_matrix, DecOutcome};
use crate::gen::{self, GraphOpts, XiMode};
use crate::oracle::*;
use crate::run::{DynSampler, Outcome, Settings};
use crate::util::*;
use num::{Signed, Zero};
use serde_json::{json, Value};

fn symmetric_matrix(rng: &mut Rng, n: usize) -> (String, Vec<Vec<f64>>) {
    let randsym = |rng: &mut Rng, n: usize| -> Vec<Vec<f64>> {
        let mut a = vec![vec![0.0; n]; n];
        for i in 0..n {
            for j in i..n {
                let v = rng.normal();
                a[i][j] = v;
                a[j][i] = v;
            }
        }
        a
    };
    let bbt = |rng: &mut Rng, n: usize, r: usize, int: bool| -> Vec<Vec<f64>> {
        let b: Vec<Vec<f64>> = (0..n).map(|_| (0..r).map(|_| if int { rng.int(-3, 3) as f64 } else { rng.normal() }).collect()).collect();
        let mut a = vec![vec![0.0; n]; n];
        for i in 0..n {
            for j in 0..n {
                a[i][j] = (0..r).map(|k| b[i][k] * b[j][k]).sum();
            }
        }
        for i in 0..n {
            for j in 0..i {
                a[i][j] = a[j][i];
            }
        }
        a
    };
    match rng.below(12) {
        0 | 1 => spd_matrix(rng, n),
        2 => ("indefinite_random".into(), randsym(rng, n)),
        3 => {
            let mut a = bbt(rng, n, n + 1, false);
            for r in a.iter_mut() {
                for x in r.iter_mut() {
                    *x = -*x;
                }
            }
            ("negative_definite".into(), a)
        }
        4 => {
            let r = if n > 1 { 1 + rng.below(n - 1) } else { 0 };
            ("rank_deficient_integer_BBt".into(), bbt(rng, n, r, true))
        }
        5 => {
            // SPD with one zero pivot position (first/middle/last): zero row and column
            let (_, mut a) = spd_matrix(rng, n);
            let k = [0, n / 2, n - 1][rng.below(3)];
            for i in 0..n {
                a[i][k] = 0.0;
                a[k][i] = 0.0;
            }
            ("zero_row_and_column".into(), a)
        }
        6 => {
            // extremely ill-conditioned: kappa up to 1e20; graded downwards or upwards, on top of a
            // generic or a nearly singular (Hilbert / equicorrelated) matrix
            let base = rng.below(3);
            let mut a = match base {
                0 => spd_matrix(rng, n).1,
                1 => (0..n).map(|i| (0..n).map(|j| 1.0 / (i + j + 1) as f64).collect()).collect(),
                _ => {
                    let dlt = 10f64.powf(-rng.range(2.0, 8.0));
                    (0..n).map(|i| (0..n).map(|j| if i == j { 1.0 } else { 1.0 - dlt }).collect()).collect()
                }
            };
            let span = if base == 0 { rng.range(5.0, 10.0) } else { rng.range(0.0, 6.0) };
            let up = rng.chance(0.5);
            for i in 0..n {
                for j in 0..n {
                    let s = 10f64.powf(-span * (i + j) as f64 / (2 * n.max(2)) as f64 * 2.0);
                    if up {
                        a[i][j] /= s;
                    } else {
                        a[i][j] *= s;
                    }
                }
            }
            ((if up { "ill_conditioned_graded_up" } else { "ill_conditioned" }).into(), a)
        }
        7 => {
            // scaled by 2^(+-500): determinant under/overflow
            let (_, mut a) = spd_matrix(rng, n);
            let e = if rng.chance(0.5) { rng.int(-520, -80) } else { rng.int(80, 500) } as i32;
            let s = 2f64.powi(e);
            for r in a.iter_mut() {
                for x in r.iter_mut() {
                    *x *= s;
                }
            }
            ("spd_scaled_2^e".into(), a)
        }
        8 => {
            // tiny diagonal: det_q != 0 but det_q^2 underflows
            let mut a = vec![vec![0.0; n]; n];
            let e = rng.range(-300.0, -100.0);
            for i in 0..n {
                a[i][i] = 10f64.powf(e + rng.range(-3.0, 3.0));
            }
            ("tiny_diagonal".into(), a)
        }
        9 => {
            // 2x2-block indefinite [[1,2],[2,1]] embedded
            let mut a = vec![vec![0.0; n]; n];
            for i in 0..n {
                a[i][i] = 1.0;
            }
            if n >= 2 {
                let k = rng.below(n - 1);
                let c = rng.range(1.0, 3.0);
                a[k][k + 1] = c;
                a[k + 1][k] = c;
            } else {
                a[0][0] = -1.0;
            }
            ("indefinite_block".into(), a)
        }
        10 => {
            // matrices containing NaN / inf
            let (_, mut a) = spd_matrix(rng, n);
            let i = rng.below(n);
            let j = rng.below(n);
            let v = [f64::NAN, f64::INFINITY, f64::NEG_INFINITY][rng.below(3)];
            a[i][j] = v;
            a[j][i] = v;
            ("nonfinite_entry".into(), a)
        }
        _ => {
            // semi-definite, exactly singular: duplicate a row/column pattern: x s s^T sums with rank < n
            let r = if n > 1 { n - 1 } else { 0 };
            ("rank_n-1_integer".into(), bbt(rng, n, r, true))
        }
    }
}

fn pick_tol(rng: &mut Rng) -> Option<f64> {
    match rng.below(12) {
        0 | 1 => None,
        2 => Some(0.0),
        3 => Some(f64::INFINITY),
        4 => Some(f64::NAN),
        5 => Some(-1.0),
        6 => Some(1e3),
        7 => Some(1.0),
        _ => Some(10f64.powf(rng.range(-15.0, 0.0))),
    }
}

/// exact L_2,1 distances of inverse*A from I (columns) and of its transpose (rows), as f64
fn exact_distances(a: &[Vec<f64>], inv: &[Vec<f64>]) -> Option<(f64, f64)> {
    let n = a.len();
    if a.iter().flatten().chain(inv.iter().flatten()).any(|x| !x.is_finite()) {
        return None;
    }
    let mut z = qm_mul(&qm_from_f64(inv), &qm_from_f64(a));
    for i in 0..n {
        z[i][i] -= qi(1);
    }
    let mut col = 0.0;
    let mut row = 0.0;
    for j in 0..n {
        let sc: Q = (0..n).map(|i| &z[i][j] * &z[i][j]).fold(Q::zero(), |x, y| x + y);
        let sr: Q = (0..n).map(|i| &z[j][i] * &z[j][i]).fold(Q::zero(), |x, y| x + y);
        col += qf(&sc).sqrt();
        row += qf(&sr).sqrt();
    }
    Some((col, row))
}

/// exact check of the stability clause for an Ok result. Returns Some(description) on failure.
fn stability_violation(a: &[Vec<f64>], inv: &[Vec<f64>], tol: f64) -> Option<(String, f64)> {
    let n = a.len();
    if inv.iter().flatten().any(|x| x.is_nan()) {
        return Some(("inverse contains NaN: the L_2,1 distance is not <= tol".into(), f64::NAN));
    }
    if tol.is_nan() {
        return Some(("tolerance is NaN: no distance is <= NaN, yet Ok was returned".into(), f64::NAN));
    }
    if a.iter().flatten().any(|x| !x.is_finite()) {
        return Some(("matrix contains a non-finite entry, distance undefined, yet Ok".into(), f64::NAN));
    }
    if tol == f64::INFINITY {
        return None; // any finite or infinite distance is <= +inf
    }
    if inv.iter().flatten().any(|x| x.is_infinite()) {
        return Some(("inverse contains an infinity: distance is infinite (or undefined) > finite tol".into(), f64::INFINITY));
    }
    let aq = qm_from_f64(a);
    let iq = qm_from_f64(inv);
    let mut z = qm_mul(&iq, &aq);
    for i in 0..n {
        z[i][i] -= qi(1);
    }
    // lower bound of the L_2,1 norm
    let mut lower = Q::zero();
    for j in 0..n {
        let s: Q = (0..n).map(|i| &z[i][j] * &z[i][j]).fold(Q::zero(), |x, y| x + y);
        let (lo, _hi) = q_sqrt_enclosure(&s);
        lower += lo;
    }
    // slack: rounding of the code's own f64 evaluation of that norm
    let mut maj = 0.0;
    for j in 0..n {
        let mut col = 0.0;
        for i in 0..n {
            let mut s = 0.0;
            for k in 0..n {
                s += (inv[i][k] * a[k][j]).abs();
            }
            if i == j {
                s += 1.0;
            }
            col += s * s;
        }
        maj += col.sqrt();
    }
    // rigorous: each entry of inverse*A - I is an n-term dot product minus 0/1 (error <= (n+1) eps
    // * sum|inv||A|), then squares, an n-term sum and a square root per column; factor 2 safety
    let slack = 1e-9 * tol.abs() + 2.0 * (n + 3) as f64 * EPS * maj + 1e-290;
    let lim = q(tol.max(-1e300)) + q(if slack.is_finite() { slack } else { f64::MAX });
    if lower > lim {
        let d = qf(&lower);
        return Some((format!("exact L_2,1 distance >= {:e} exceeds tol {:e} + slack {:e}", d, tol, slack), d));
    }
    None
}

fn matrix_case(item: u64, rng: &mut Rng, acc: &mut Acc) {
    let n = 1 + rng.below(8);
    let (family, a) = symmetric_matrix(rng, n);
    let tol = pick_tol(rng);
    let st = Settings { stability: tol, debug: rng.chance(0.05), metadata: false };
    acc.evals += 1;
    acc.set("families", family.clone());
    acc.count(&format!("n={}", n));
    let tol_class = match tol {
        None => "None".to_string(),
        Some(t) if t.is_nan() => "NaN".into(),
        Some(t) if t == f64::INFINITY => "+inf".into(),
        Some(t) if t < 0.0 => "negative".into(),
        Some(t) if t == 0.0 => "zero".into(),
        Some(_) => "finite".into(),
    };
    acc.set("tolerance_classes", tol_class.clone());
    let out = decompose(&a, &st);
    let desc = |extra: Value| -> Value { json!({"family": family, "n": n, "matrix": a.iter().map(|r| fjv(r)).collect::<Vec<_>>(), "tol": tol.map(fj), "observed": extra}) };
    match out {
        DecOutcome::Panic(p) => {
            acc.count("outcome_panic");
            acc.violate(item, "panic", "matrix:panic", desc(json!({"panic": p})));
        }
        DecOutcome::Err(e) => {
            acc.count(&format!("outcome_Err_{}", e));
            let key: Vec<u64> = a.iter().flatten().map(|x| x.to_bits()).collect();
            if n >= 2 {
                acc.distinct.insert(hash_u64s(&key));
            }
        }
        DecOutcome::Ok(d) => {
            acc.count("outcome_Ok");
            let key: Vec<u64> = a.iter().flatten().map(|x| x.to_bits()).chain([tol.unwrap_or(-7.0).to_bits()]).collect();
            if n >= 2 {
                acc.distinct.insert(hash_u64s(&key));
            }
            if d.det == 0.0 {
                acc.violate(
                    item,
                    "ok_with_zero_determinant",
                    &format!("matrix:ok_zero_det:{}", family),
                    desc(json!({"determinant": fj(d.det), "q_transposed_diagonal": (0..n).map(|i| fj(d.qt[i][i])).collect::<Vec<_>>()})),
                );
            }
            if let Some(t) = tol {
                acc.count("ok_with_stability_test");
                let has_nan = d.det.is_nan() || [&d.inv, &d.qt, &d.qt_inv].iter().any(|m| m.iter().flatten().any(|x| x.is_nan()));
                if has_nan {
                    acc.violate(
                        item,
                        "ok_with_nan_under_stability_test",
                        &format!("matrix:ok_nan:{}:{}", family, tol_class),
                        desc(json!({"determinant": fj(d.det), "inverse": d.inv.iter().map(|r| fjv(r)).collect::<Vec<_>>() })),
                    );
                } else if let Some((why, dist)) = stability_violation(&a, &d.inv, t) {
                    acc.violate(
                        item,
                        "ok_but_distance_exceeds_tolerance",
                        &format!("matrix:ok_unstable:{}:{}", family, tol_class),
                        desc(json!({"why": why, "distance": fj(dist), "inverse": d.inv.iter().map(|r| fjv(r)).collect::<Vec<_>>() })),
                    );
                } else {
                    acc.count("ok_distance_verified_exactly");
                }
            }
            // directed tolerances: place tol just below the exact distance, in particular between
            // the row-wise and the column-wise norm of the residual when they differ
            if tol.is_none() && n >= 2 {
                if let Some((dcol, drow)) = exact_distances(&a, &d.inv) {
                    {
                        // observability of the row/column distinction: gap relative to the rounding slack
                        let mut maj = 0.0;
                        for j in 0..n {
                            let mut col = 0.0;
                            for i in 0..n {
                                let mut sm = 0.0;
                                for k in 0..n {
                                    sm += (d.inv[i][k] * a[k][j]).abs();
                                }
                                if i == j {
                                    sm += 1.0;
                                }
                                col += sm * sm;
                            }
                            maj += col.sqrt();
                        }
                        let slack = 2.0 * (n + 3) as f64 * EPS * maj;
                        acc.max("row_column_norm_gap_over_slack", (dcol - drow) / slack);
                    }
                    let mut tols = vec![dcol * 0.5, dcol * 0.9];
                    if drow < dcol {
                        tols.push(0.5 * (dcol + drow));
                        tols.push(drow * 1.0001);
                    }
                    for t in tols {
                        if !(t > 0.0 && t.is_finite()) {
                            continue;
                        }
                        let st2 = Settings { stability: Some(t), debug: false, metadata: false };
                        acc.count("directed_tolerance_probes");
                        if let DecOutcome::Ok(d2) = decompose(&a, &st2) {
                            if std::env::var("C16_DEBUG").is_ok() {
                                // natural f64 evaluation of both norms
                                let mut z = vec![vec![0.0f64; n]; n];
                                for r in 0..n { for c in 0..n { for k in 0..n { z[r][c] += d2.inv[r][k] * a[k][c]; } if r == c { z[r][c] -= 1.0; } } }
                                let colf: f64 = (0..n).map(|j| (0..n).map(|i| z[i][j] * z[i][j]).sum::<f64>().sqrt()).sum();
                                let rowf: f64 = (0..n).map(|j| (0..n).map(|i| z[j][i] * z[j][i]).sum::<f64>().sqrt()).sum();
                                let same_inv = d2.inv.iter().flatten().zip(d.inv.iter().flatten()).all(|(x, y)| x.to_bits() == y.to_bits());
                                let sym = (0..n).all(|i| (0..n).all(|j| d2.inv[i][j].to_bits() == d2.inv[j][i].to_bits()));
                                eprintln!("tol={:e} f64 col-norm={:e} f64 row-norm={:e} exact col={:e} row={:e} same_inverse={} inverse_symmetric={}", t, colf, rowf, dcol, drow, same_inv, sym);
                            }
                            if let Some((why, dist)) = stability_violation(&a, &d2.inv, t) {
                                acc.violate(
                                    item,
                                    "ok_but_distance_exceeds_tolerance",
                                    &format!("matrix:ok_unstable_directed:{}", family),
                                    desc(json!({"why": why, "distance": fj(dist), "directed_tolerance": fj(t), "exact_column_norm_distance": fj(dcol), "exact_row_norm_distance": fj(drow)})),
                                );
                            } else {
                                acc.count("directed_ok_within_slack");
                            }
                        } else {
                            acc.count("directed_rejected");
                        }
                    }
                }
            }
            if acc.samples.is_empty() {
                acc.sample(desc(json!({"outcome": "Ok", "determinant": fj(d.det)})));
            }
        }
    }
}

/// whole samples with the stability test enabled at extreme points
fn sample_case(item: u64, rng: &mut Rng, acc: &mut Acc) {
    let Some((g, name)) = gen::accepted_graph(rng, &GraphOpts::std(6)) else {
        acc.count("graph_generation_failed");
        return;
    };
    let sig = gen::routing(rng, &g, 3);
    let Some(s) = DynSampler::build(&g, &sig).ok() else {
        acc.count("unexpected_build_failure");
        return;
    };
    let go = GO::new(&g);
    let Some(sec) = gen::Sector::new(&go) else { return };
    let Some(kin) = gen::kinematics(rng, &g, &sig, 8, true) else { return };
    let dim = s.dimension();
    for _ in 0..20 {
        let mode = match rng.below(3) {
            0 => XiMode::Corner(6.0),
            1 => XiMode::Corner(300.0),
            _ => XiMode::Uniform,
        };
        let Some(mut x) = gen::xpoint(rng, &sec, dim, mode, None, true) else { continue };
        // exact zeros / denormals in xi positions
        if rng.chance(0.3) && g.ne() >= 2 {
            let k = 1 + 2 * rng.below(g.ne() - 1);
            x[k] = [0.0, 5e-324, 1e-310, 1.0][rng.below(4)];
        }
        let tol = [1e-12, 1e-6, 1.0, f64::INFINITY][rng.below(4)];
        let st = Settings { stability: Some(tol), debug: false, metadata: true };
        let run = s.sample::<f64>(&x, &kin.masses, &kin.shifts, &st);
        acc.evals += 1;
        acc.count("sample_cases");
        match &run.outcome {
            Outcome::Ok(o) => {
                acc.count("sample_Ok");
                let mut vals: Vec<f64> = vec![o.u, o.v, o.jacobian, o.u_trop, o.v_trop];
                vals.extend(o.k.iter().flatten());
                if let Some(m) = &o.meta {
                    vals.push(m.lambda);
                    vals.push(m.det);
                    for mm in [&m.l, &m.inv, &m.qt, &m.qt_inv, &m.q, &m.u_vectors, &m.shift] {
                        vals.extend(mm.iter().flatten());
                    }
                }
                let mut key = vec![gen::graph_key(&g)];
                key.extend(x.iter().map(|v| v.to_bits()));
                acc.distinct.insert(hash_u64s(&key));
                if vals.iter().any(|v| v.is_nan()) {
                    let m = o.meta.as_ref().unwrap();
                    let decomposition_nan = m.det.is_nan() || [&m.inv, &m.qt, &m.qt_inv].iter().any(|mm| mm.iter().flatten().any(|v| v.is_nan()));
                    let sigk = if decomposition_nan { "sample:ok_nan_decomposition" } else { "sample:ok_nan_elsewhere" };
                    if decomposition_nan {
                        acc.violate(
                            item,
                            "sample_ok_with_nan_decomposition",
                            sigk,
                            json!({"graph": g.describe(), "name": name, "signature": sig, "kinematics": kin.describe(), "x": fjv(&x), "tol": fj(tol),
                                   "u": fj(o.u), "v": fj(o.v), "jacobian": fj(o.jacobian), "l_matrix": m.l, "inverse": m.inv}),
                        );
                    } else {
                        // NaN outside the decomposition (e.g. lambda-related) is outside C16
                        acc.count("sample_ok_nan_outside_decomposition");
                    }
                }
            }
            Outcome::Err(e) => acc.count(&format!("sample_{}", e)),
            Outcome::Panic(p) => {
                // panics for u>=1 cannot happen here (all coordinates < 1); index errors neither
                acc.count("sample_panic");
                acc.set("sample_panic_messages", p.chars().take(120).collect());
            }
        }
    }
}

pub fn run(ctx: &Ctx) -> i32 {
    let n_items = ctx.n(6000, 60_000);
    let acc = par_items(ctx, "C16", n_items, |item, rng, acc| {
        if item % 3 == 2 {
            sample_case(item, rng, acc);
        } else {
            for _ in 0..50 {
                matrix_case(item, rng, acc);
            }
        }
    });
    let fin = Finish::new(
        "symmetric matrices n=1..8 of twelve families (SPD, indefinite, negative definite, rank-deficient, zero row/column, kappa to 1e20, scaled by 2^+-500, tiny diagonal, NaN/inf entries) x tolerances {None,0,1e-15..1,1e3,+inf,NaN,negative}; \
         Ok => determinant != 0; Some(tol) and Ok => no NaN and the exact (rational) L_2,1 distance of inverse*A from I <= tol + rounding slack; \
         plus whole samples with the test on at corner points (xi down to 0 and 5e-324): Ok => no NaN in the decomposition. \
         distinct = distinct (matrix, tol) bit patterns with n>=2, or distinct (graph, x-point)",
    )
    .assume("slack = 1e-9*tol + 2(n+3) eps || |inverse| |A| + I ||_2,1 covers the rounding of the code's own norm evaluation")
    .min(1000);
    finish(ctx, acc, fin)
}
