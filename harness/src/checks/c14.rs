//! C14 — each hypercube coordinate is consumed exactly once, in one statistical role.
//! Instrumented-scalar monitor (dynamic taint tracking through a user-supplied
//! MomTropFloat type) plus black-box metamorphic monitors (extra coordinates, short
//! points, single-coordinate perturbations).
use crate::gen::{self, GraphOpts, XiMode};
use crate::run::{Outcome, SampleOut, Settings};
use crate::scalar::{tracked_control, tracked_reset, Tracked};
use crate::setup::Setup;
use crate::util::*;
use serde_json::json;

fn bits(s: u128) -> Vec<usize> {
    (0..128).filter(|i| s >> i & 1 == 1).collect()
}

fn run_tracked(su: &Setup, x: &[f64], st: &Settings) -> (Outcome<Tracked>, u128) {
    let xt: Vec<Tracked> = x.iter().enumerate().map(|(i, v)| Tracked::coord(*v, i.min(127))).collect();
    let masses: Vec<Option<Tracked>> = su.kin.masses.iter().map(|m| m.map(Tracked::plain)).collect();
    let shifts: Vec<Vec<Tracked>> = su.kin.shifts.iter().map(|v| v.iter().map(|c| Tracked::plain(*c)).collect()).collect();
    tracked_reset(false);
    let run = su.sampler.sample::<Tracked>(&xt, &masses, &shifts, st);
    (run.outcome, tracked_control())
}

fn flat_bits(o: &SampleOut<f64>) -> Vec<u64> {
    let mut v = vec![o.u.to_bits(), o.v.to_bits(), o.jacobian.to_bits(), o.u_trop.to_bits(), o.v_trop.to_bits()];
    v.extend(o.k.iter().flatten().map(|c| c.to_bits()));
    if let Some(m) = &o.meta {
        v.push(m.lambda.to_bits());
        v.push(m.det.to_bits());
        for mm in [&m.q, &m.l, &m.inv, &m.qt, &m.qt_inv, &m.u_vectors, &m.shift] {
            v.extend(mm.iter().flatten().map(|c| c.to_bits()));
        }
    }
    v
}

fn case(item: u64, rng: &mut Rng, acc: &mut Acc, quick: bool) {
    let mut o = GraphOpts::std(if quick { 6 } else { 8 });
    o.max_loops = 4;
    let Some(su) = Setup::random(rng, &o, 2, 4) else {
        acc.count("setup_failed");
        return;
    };
    let ne = su.g.ne();
    let n = su.dim;
    let d = su.g.d;
    let nl = su.loops;
    let gkey = gen::graph_key(&su.g);
    let st = Settings::meta();
    acc.set("D_L_pairs", format!("D{}L{}", d, nl));
    let lam_idx = 2 * ne - 2;
    let gauss0 = 2 * ne - 1;
    let xi_set: u128 = (0..ne.saturating_sub(1)).map(|j| 1u128 << (2 * j + 1)).fold(0, |a, b| a | b);
    let u_set: u128 = (0..ne.saturating_sub(1)).map(|j| 1u128 << (2 * j)).fold(0, |a, b| a | b);
    let all: u128 = if n >= 128 { u128::MAX } else { (1u128 << n) - 1 };
    let orders = if ne <= 4 { gen::permutations(ne) } else { (0..8).map(|_| gen::random_order(rng, ne)).collect() };
    for ord in orders.iter().take(if quick { 8 } else { 24 }) {
        let Some(x) = gen::xpoint(rng, &su.sec, n, XiMode::Benign, Some(ord), false) else { continue };
        // ---------- taint monitor; two extra coordinates appended to see that they are never read
        let mut xx = x.clone();
        xx.push(rng.fo());
        xx.push(rng.fo());
        let (outc, control) = run_tracked(&su, &xx, &st);
        acc.evals += 1;
        if let Outcome::Panic(p) = &outc {
            acc.violate(item, "panic_at_legal_point", "coords:panic", json!({"config": su.describe(), "x": fjv(&x), "panic": p}));
            continue;
        }
        let Outcome::Ok(o) = outc else {
            acc.count("tracked_sample_not_ok");
            continue;
        };
        let m = o.meta.as_ref().unwrap();
        let mut key = vec![gkey];
        key.extend(ord.iter().map(|e| *e as u64));
        acc.distinct.insert(hash_u64s(&key));
        let mut fails: Vec<String> = vec![];
        let uvj = o.u.data | o.v.data | o.jacobian.data;
        if uvj & !xi_set != 0 {
            fails.push(format!("u, v, jacobian depend on coordinates {:?} outside the xi coordinates {:?}", bits(uvj & !xi_set), bits(xi_set)));
        }
        let lmat: u128 = m.l.iter().flatten().map(|c| c.data).fold(0, |a, b| a | b);
        if lmat & !xi_set != 0 {
            fails.push(format!("the L matrix (Feynman parameters) depends on coordinates {:?} outside the xi coordinates", bits(lmat & !xi_set)));
        }
        if ne >= 2 && uvj | lmat != xi_set {
            fails.push(format!("xi coordinates {:?} do not influence u, v, jacobian or L", bits(xi_set & !(uvj | lmat))));
        }
        if m.lambda.data != 1u128 << lam_idx {
            fails.push(format!("lambda depends on coordinates {:?}, expected exactly [{}]", bits(m.lambda.data), lam_idx));
        }
        let mut union_all = uvj | lmat | m.lambda.data | control;
        let mut seen_pairs: Vec<u128> = vec![];
        for c in 0..d * nl {
            let pair = (1u128 << (gauss0 + 2 * (c / 2))) | (1u128 << (gauss0 + 2 * (c / 2) + 1));
            let got = m.q[c / d][c % d].data;
            if got != pair {
                fails.push(format!("Gaussian component {} depends on coordinates {:?}, expected its own pair {:?}", c, bits(got), bits(pair)));
            }
            union_all |= got;
            if c % 2 == 0 {
                if seen_pairs.iter().any(|p| p & pair != 0) {
                    fails.push("Gaussian pairs overlap".into());
                }
                seen_pairs.push(pair);
            }
        }
        for kk in o.k.iter().flatten() {
            union_all |= kk.data;
        }
        // the u coordinates steer branches only
        let data_everywhere = {
            let mut s = uvj | lmat | m.lambda.data;
            for c in m.q.iter().flatten().chain(o.k.iter().flatten()).chain(m.inv.iter().flatten()).chain(m.shift.iter().flatten()) {
                s |= c.data;
            }
            s
        };
        if data_everywhere & u_set != 0 {
            fails.push(format!("edge-choice coordinates {:?} enter arithmetic (data dependence); they may only steer the edge choice", bits(data_everywhere & u_set)));
        }
        if control & u_set != u_set {
            fails.push(format!("edge-choice coordinates {:?} were never compared (not used for an edge choice)", bits(u_set & !control)));
        }
        if control & !(u_set | xi_set) != 0 {
            fails.push(format!("coordinates {:?} outside the sector stage steer a branch", bits(control & !(u_set | xi_set))));
        }
        if union_all & !all != 0 {
            fails.push(format!("coordinates {:?} beyond get_dimension() = {} were read", bits(union_all & !all), n));
        }
        if union_all & all != all {
            fails.push(format!("coordinates {:?} influence nothing", bits(all & !union_all)));
        }
        acc.count("taint_samples_checked");
        if acc.samples.is_empty() {
            acc.sample(json!({"graph": su.g.describe(), "dimension": n, "data(u,v,jacobian)": bits(uvj), "control": bits(control), "data(lambda)": bits(m.lambda.data),
                              "data(q)": m.q.iter().flatten().map(|c| bits(c.data)).collect::<Vec<_>>(), "data(k[0][0])": bits(o.k[0][0].data)}));
        }
        if !fails.is_empty() {
            acc.violate(item, "dependency_sets", "coords:dependency_sets", json!({"config": su.describe(), "x": fjv(&x), "dimension": n, "failures": fails}));
            continue;
        }
        // ---------- black-box metamorphic monitors on the f64 instantiation
        let base = su.sample(&x, &st);
        let Some(b) = base.outcome.ok() else { continue };
        let bb = flat_bits(b);
        // (a) extra coordinates are ignored
        let ext = su.sample(&xx, &st);
        match ext.outcome.ok() {
            Some(e) if flat_bits(e) == bb => acc.count("extra_coordinates_ignored"),
            _ => acc.violate(item, "extra_coordinates_change_result", "coords:extra_changes_result", json!({"config": su.describe(), "x": fjv(&x)})),
        }
        // (b) a point that is one coordinate short cannot be served: coordinate n-1 is read
        let short = su.sample(&x[..n - 1], &st);
        match &short.outcome {
            Outcome::Panic(p) if p.contains("index out of bounds") || p.contains("out of range") => acc.count("short_point_index_panic"),
            other => acc.violate(
                item,
                "short_point_accepted",
                "coords:short_point_accepted",
                json!({"config": su.describe(), "x": fjv(&x), "dimension": n, "outcome_with_n-1_coordinates": other.kind()}),
            ),
        }
        // (c) single-coordinate perturbations: role separation and influence
        let bm = b.meta.as_ref().unwrap();
        for i in 0..n {
            let mut xp = x.clone();
            let is_u = i < lam_idx && i % 2 == 0;
            xp[i] = if is_u {
                // move to a different edge interval if possible, else a small shift
                let v = rng.f();
                v
            } else {
                let v = x[i] * (1.0 - 1e-3) + 1e-4 * rng.f();
                if v > 0.0 && v < 1.0 {
                    v
                } else {
                    0.5
                }
            };
            let r = su.sample(&xp, &st);
            let Some(p) = r.outcome.ok() else {
                acc.count("perturbed_sample_not_ok");
                continue;
            };
            let pm = p.meta.as_ref().unwrap();
            acc.count("perturbations");
            let same = |a: &[Vec<f64>], c: &[Vec<f64>]| a.iter().flatten().zip(c.iter().flatten()).all(|(x, y)| x.to_bits() == y.to_bits());
            let sector_same = p.u.to_bits() == b.u.to_bits() && p.v.to_bits() == b.v.to_bits() && p.jacobian.to_bits() == b.jacobian.to_bits() && same(&pm.l, &bm.l);
            let lam_same = pm.lambda.to_bits() == bm.lambda.to_bits();
            let mut pf: Vec<String> = vec![];
            if i < lam_idx {
                if !lam_same {
                    pf.push(format!("changing sector coordinate {} changed lambda", i));
                }
                if !same(&pm.q, &bm.q) {
                    pf.push(format!("changing sector coordinate {} changed the Gaussian vectors", i));
                }
                if !sector_same {
                    acc.count("influence_confirmed_sector_coordinate");
                }
            } else if i == lam_idx {
                if !sector_same {
                    pf.push(format!("changing the lambda coordinate {} changed u, v, jacobian or L", i));
                }
                if !same(&pm.q, &bm.q) {
                    pf.push(format!("changing the lambda coordinate {} changed the Gaussian vectors", i));
                }
                if lam_same {
                    pf.push(format!("changing the lambda coordinate {} did not change lambda", i));
                } else {
                    acc.count("influence_confirmed_lambda_coordinate");
                }
            } else {
                let pair = (i - gauss0) / 2;
                if !sector_same {
                    pf.push(format!("changing Gaussian coordinate {} changed u, v, jacobian or L", i));
                }
                if !lam_same {
                    pf.push(format!("changing Gaussian coordinate {} changed lambda", i));
                }
                let mut own_changed = false;
                for c in 0..d * nl {
                    let ch = pm.q[c / d][c % d].to_bits() != bm.q[c / d][c % d].to_bits();
                    if c / 2 == pair {
                        own_changed |= ch;
                    } else if ch {
                        pf.push(format!("changing Gaussian coordinate {} (pair {}) changed component {} of another pair", i, pair, c));
                    }
                }
                if own_changed {
                    acc.count("influence_confirmed_gaussian_coordinate");
                } else {
                    pf.push(format!("changing Gaussian coordinate {} did not change any component of its pair", i));
                }
            }
            if !pf.is_empty() {
                acc.violate(item, "role_separation", "coords:role_separation", json!({"config": su.describe(), "x": fjv(&x), "perturbed_coordinate": i, "new_value": fj(xp[i]), "failures": pf}));
                break;
            }
        }
    }
}

pub fn run(ctx: &Ctx) -> i32 {
    let quick = ctx.quick();
    let n_items = ctx.n(1500, 10000);
    let acc = par_items(ctx, "C14", n_items, |item, rng, acc| case(item, rng, acc, quick));
    let fin = Finish::new(
        "accepted connected graphs, D=1..6, 1-4 loops, every sector for E<=4 (random sectors above). (1) taint monitor: the unmodified generic sample() runs with a scalar type carrying the set of x-space coordinates each value depends on (comparisons recorded as control dependence): \
         u,v,jacobian,L depend exactly on the xi coordinates; edge-choice coordinates only steer branches; lambda depends exactly on coordinate 2E-2; Gaussian component c exactly on its own pair; nothing beyond get_dimension() is read; every coordinate influences something. \
         (2) black-box: two extra coordinates leave all outputs bit-identical; a point of length n-1 panics with an index error; perturbing one coordinate changes only the outputs of its role (and does change them). distinct = distinct (graph, sector)",
    )
    .assume("taint tracking is exact for arithmetic; narrowing to f64 and widening back is tracked through a pending set (exact for the unmodified code, conservative otherwise)")
    .min(500);
    finish(ctx, acc, fin)
}
