//! C18 — a serialised sampler restores to one that samples identically.
use crate::gen::{self, GraphOpts, XiMode};
use crate::run::{DynSampler, Outcome, Run, Settings};
use crate::setup::Setup;
use crate::util::*;
use serde_json::json;

pub fn result_bits(r: &Run<f64>) -> Vec<u64> {
    match &r.outcome {
        Outcome::Ok(o) => {
            let mut v = vec![1u64, o.u.to_bits(), o.v.to_bits(), o.jacobian.to_bits(), o.u_trop.to_bits(), o.v_trop.to_bits()];
            v.extend(o.k.iter().flatten().map(|c| c.to_bits()));
            if let Some(m) = &o.meta {
                v.push(m.lambda.to_bits());
                v.push(m.det.to_bits());
                for mm in [&m.q, &m.l, &m.inv, &m.qt, &m.qt_inv, &m.u_vectors, &m.shift] {
                    v.extend(mm.iter().flatten().map(|c| c.to_bits()));
                }
            }
            v
        }
        Outcome::Err(e) => vec![2, hash_str(e)],
        Outcome::Panic(p) => vec![3, hash_str(p.split('@').next().unwrap_or(""))],
    }
}

pub fn probe_points(rng: &mut Rng, su: &Setup, n: usize) -> Vec<Vec<f64>> {
    let ne = su.g.ne();
    let mut pts = vec![];
    let orders = if ne <= 4 { gen::permutations(ne) } else { (0..n).map(|_| gen::random_order(rng, ne)).collect() };
    let mut k = 0;
    while pts.len() < n {
        let mode = match k % 4 {
            0 => XiMode::Uniform,
            1 => XiMode::Corner(6.0),
            2 => XiMode::Benign,
            _ => XiMode::Corner(300.0),
        };
        let ord = &orders[k % orders.len()];
        let directed = k % 3 != 0;
        if let Some(mut x) = gen::xpoint(rng, &su.sec, su.dim, mode, if directed { Some(ord) } else { None }, k % 5 == 0) {
            if k % 7 == 6 && ne >= 2 {
                // boundary-adjacent edge choice
                let iv = su.sec.intervals((1u64 << ne) - 1);
                let b = crate::oracle::qf(&iv[0].2);
                x[0] = ulps(b, rng.int(-1, 1) as i32).clamp(0.0, 1.0 - f64::EPSILON);
            }
            pts.push(x);
        }
        k += 1;
        if k > 20 * n {
            break;
        }
    }
    pts
}

fn case(item: u64, rng: &mut Rng, acc: &mut Acc, quick: bool) {
    let mut o = GraphOpts::std(if quick { 6 } else { 9 });
    o.allow_single_external = true;
    o.big_loop_prob = 0.06;
    let Some(su) = Setup::random(rng, &o, 3, 8) else {
        acc.count("setup_failed");
        return;
    };
    let d = su.g.d;
    acc.evals += 1;
    acc.set("D_L_pairs", format!("D{}L{}", d, su.loops));
    if su.g.ne() >= 2 {
        acc.distinct.insert(gen::graph_key(&su.g));
    }
    let js = su.sampler.json_string();
    let cb = su.sampler.cbor();
    let mut fails: Vec<String> = vec![];
    let restored: Vec<(&str, Result<DynSampler, String>)> = vec![("json", DynSampler::from_json_str(d, &js)), ("cbor", DynSampler::from_cbor(d, &cb))];
    let pts = probe_points(rng, &su, if quick { 40 } else { 60 });
    for (fmt, r) in restored {
        let r = match r {
            Ok(r) => r,
            Err(e) => {
                fails.push(format!("{}: deserialisation failed: {}", fmt, e));
                continue;
            }
        };
        if r.json_string() != js {
            fails.push(format!("{}: re-serialisation of the restored sampler differs", fmt));
        }
        if r.cbor() != cb {
            fails.push(format!("{}: CBOR re-serialisation of the restored sampler differs", fmt));
        }
        if r.dimension() != su.sampler.dimension() || r.dod().to_bits() != su.sampler.dod().to_bits() || r.num_edges() != su.sampler.num_edges() {
            fails.push(format!("{}: dimension/dod/num_edges differ", fmt));
        }
        if r.edge_weights().iter().map(|x| x.to_bits()).collect::<Vec<_>>() != su.sampler.edge_weights().iter().map(|x| x.to_bits()).collect::<Vec<_>>() {
            fails.push(format!("{}: edge weights differ", fmt));
        }
        if r.smallest_dod().to_bits() != su.sampler.smallest_dod().to_bits() {
            fails.push(format!("{}: smallest dod differs", fmt));
        }
        for (pi, x) in pts.iter().enumerate() {
            let st = Settings { stability: if pi % 4 == 0 { Some(1e-6) } else { None }, debug: false, metadata: true };
            let a = su.sampler.sample::<f64>(x, &su.kin.masses, &su.kin.shifts, &st);
            let b = r.sample::<f64>(x, &su.kin.masses, &su.kin.shifts, &st);
            acc.count("probe_samples_compared");
            acc.count(&format!("probe_outcome_{}", a.outcome.kind().chars().take(28).collect::<String>()));
            if result_bits(&a) != result_bits(&b) {
                fails.push(format!("{}: sample {} differs: original {}, restored {}", fmt, pi, a.outcome.kind(), b.outcome.kind()));
                if fails.len() > 4 {
                    break;
                }
            }
        }
    }
    if acc.samples.is_empty() {
        acc.sample(json!({"graph": su.g.describe(), "json_bytes": js.len(), "cbor_bytes": cb.len(), "probe_points": pts.len()}));
    }
    if !fails.is_empty() {
        acc.violate(item, "round_trip", "serde:round_trip", json!({"config": su.describe(), "failures": fails}));
    }
}

pub fn run(ctx: &Ctx) -> i32 {
    let quick = ctx.quick();
    let n_items = ctx.n(1500, 8000);
    let acc = par_items(ctx, "C18", n_items, |item, rng, acc| case(item, rng, acc, quick));
    let fin = Finish::new(
        "accepted connected graphs (multi-loop signatures, masses, all D); SampleGenerator -> serde_json string (float_roundtrip) -> back and -> CBOR (ciborium) -> back; re-serialisation byte-identical in both formats, getters equal, and for 40-60 probe points per graph \
         (all sectors for E<=4, uniform/corner/extreme-corner/boundary-adjacent, stability test on and off) every float of result and metadata bit-identical, including the kind of error. distinct = distinct graphs with E>=2",
    )
    .min(100);
    finish(ctx, acc, fin)
}
