//! C19 — user precision is preserved: only the Gamma draw narrows to f64.
//! Monitor 1: census of every to_f64()/from_f64() call site reached while the unmodified
//! generic code runs with an instrumented scalar (#[track_caller]).
//! Monitor 2: the same code runs with a double-double scalar; algebraic identities among the
//! returned values must hold to ~2^-90, thirty-odd bits below what any f64 detour leaves.
use crate::gen::{self, GraphOpts, XiMode};
use crate::oracle::*;
use crate::run::{Outcome, Settings};
use crate::scalar::{tracked_census, tracked_pi_calls, tracked_reset, tracked_set_pi_skew, Tracked, DD};
use crate::setup::Setup;
use crate::util::*;
use num::{Signed, Zero};
use serde_json::json;

/// line range of `pub fn inverse_gamma_lr` in the current /repo/src/gamma.rs
fn gamma_fn_range() -> Option<(String, u32, u32)> {
    // the sources the harness was compiled against: $VERIF_REPO (scratch copies), else /repo
    let repo = std::env::var("VERIF_REPO").unwrap_or_else(|_| "/repo".to_string());
    let text = std::fs::read_to_string(format!("{}/src/gamma.rs", repo)).ok()?;
    let mut start = None;
    let mut depth: i32 = 0;
    let mut opened = false;
    for (i, line) in text.lines().enumerate() {
        let ln = i as u32 + 1;
        if start.is_none() {
            if line.contains("pub fn inverse_gamma_lr<") || (line.contains("pub fn inverse_gamma_lr") && !line.contains("_impl")) {
                start = Some(ln);
            } else {
                continue;
            }
        }
        for ch in line.chars() {
            if ch == '{' {
                depth += 1;
                opened = true;
            } else if ch == '}' {
                depth -= 1;
            }
        }
        if opened && depth == 0 {
            return Some(("gamma.rs".to_string(), start.unwrap(), ln));
        }
    }
    None
}

fn census_case(item: u64, rng: &mut Rng, acc: &mut Acc, range: &(String, u32, u32), quick: bool) {
    let o = GraphOpts::std(if quick { 6 } else { 8 });
    let su = if (item / 2) % 3 == 0 {
        // one sub-divergence almost logarithmic (sub-dod 2^-7 .. 2^-10)
        let Some((mut g, name)) = gen::accepted_graph(rng, &o) else {
            acc.count("setup_failed");
            return;
        };
        let mut name = name;
        if let Some((w, min)) = gen::extreme_marginal_with(rng, &g, &[7, 8, 10], 44) {
            g.weights = w;
            name.push_str("+deep_marginal");
            acc.count("census_graphs_with_sub_dod_below_0.01");
            acc.max("census_smallest_sub_dod_inverse", 1.0 / min);
        }
        Setup::from_graph(rng, g, name, 2, 4)
    } else {
        Setup::random(rng, &o, 2, 4)
    };
    let Some(su) = su else {
        acc.count("setup_failed");
        return;
    };
    let ne = su.g.ne();
    let gkey = gen::graph_key(&su.g);
    let lam_bit = 1u128 << (2 * ne - 2);
    for k in 0..10 {
        let mode = if k % 2 == 0 { XiMode::Uniform } else { XiMode::Corner(4.0) };
        let Some(x) = gen::xpoint(rng, &su.sec, su.dim, mode, None, false) else { continue };
        let st = Settings { stability: if k % 3 == 0 { Some(1e-3) } else { None }, debug: false, metadata: k % 2 == 1 };
        let xt: Vec<Tracked> = x.iter().enumerate().map(|(i, v)| Tracked::coord(*v, i.min(127))).collect();
        let masses: Vec<Option<Tracked>> = su.kin.masses.iter().map(|m| m.map(Tracked::plain)).collect();
        let shifts: Vec<Vec<Tracked>> = su.kin.shifts.iter().map(|v| v.iter().map(|c| Tracked::plain(*c)).collect()).collect();
        tracked_reset(false);
        let run = su.sampler.sample::<Tracked>(&xt, &masses, &shifts, &st);
        let census = tracked_census();
        acc.evals += 1;
        acc.count(&format!("census_outcome_{}", run.outcome.kind().chars().take(24).collect::<String>()));
        if let Outcome::Panic(p) = &run.outcome {
            acc.violate(item, "panic_with_user_scalar", "precision:panic", json!({"config": su.describe(), "x": fjv(&x), "panic": p}));
        }
        let mut key = vec![gkey, 1];
        key.extend(x.iter().map(|v| v.to_bits()));
        acc.distinct.insert(hash_u64s(&key));
        let mut fails: Vec<String> = vec![];
        let mut n_narrow = 0;
        let mut narrowed_taints: Vec<u128> = vec![];
        for e in &census {
            acc.set("call_sites_seen", format!("{} {}:{}", e.kind, e.file.rsplit('/').next().unwrap_or(""), e.line));
            let inside = e.file.ends_with(&range.0) && e.file.contains("src") && e.line >= range.1 && e.line <= range.2;
            if e.kind == "to_f64" {
                n_narrow += 1;
                narrowed_taints.push(e.taint);
                if !inside {
                    fails.push(format!("value narrowed to f64 at {}:{} (outside inverse_gamma_lr, lines {}-{} of gamma.rs); it depends on coordinates {:?}", e.file, e.line, range.1, range.2, (0..128).filter(|i| e.taint >> i & 1 == 1).collect::<Vec<_>>()));
                }
            } else if !inside {
                fails.push(format!("a narrowed value re-enters the user's type at {}:{} (outside inverse_gamma_lr)", e.file, e.line));
            }
        }
        acc.add("narrowing_events_observed", n_narrow);
        // when the Gamma stage was reached: exactly the shape a, p, eps
        let reached_gamma = !matches!(&run.outcome, Outcome::Err(e) if e.starts_with("MatrixError")) && !matches!(&run.outcome, Outcome::Panic(_));
        if reached_gamma && fails.is_empty() {
            let tainted: Vec<&u128> = narrowed_taints.iter().filter(|t| **t != 0).collect();
            if n_narrow != 3 || tainted.len() != 1 || *tainted[0] != lam_bit {
                fails.push(format!(
                    "expected exactly three narrowed values (shape, probability, tolerance) with only the probability depending on coordinate {}; saw {} with dependency sets {:?}",
                    2 * ne - 2,
                    n_narrow,
                    narrowed_taints.iter().map(|t| (0..128).filter(|i| t >> i & 1 == 1).collect::<Vec<usize>>()).collect::<Vec<_>>()
                ));
            }
        }
        if !reached_gamma && n_narrow != 0 && fails.is_empty() {
            fails.push(format!("{} values narrowed although the Gamma draw was not reached", n_narrow));
        }
        if acc.samples.is_empty() {
            acc.sample(json!({"graph": su.g.describe(), "census": census.iter().map(|e| format!("{} {}:{} taint={:?}", e.kind, e.file, e.line, (0..128).filter(|i| e.taint >> i & 1 == 1).collect::<Vec<_>>())).collect::<Vec<_>>()}));
        }
        if !fails.is_empty() {
            acc.violate(item, "narrowing_outside_gamma_draw", "precision:narrowing_site", json!({"config": su.describe(), "x": fjv(&x), "settings": format!("{:?}", st), "failures": fails}));
        }
        // ---- monitor 3: the user's constants are used. The scalar's PI() is skewed by 2^-20; the
        // Gaussian vectors must follow the skewed value (an f64 literal for 2*pi would not).
        if k % 2 == 1 {
            let skew = 2f64.powi(-20);
            tracked_reset(false);
            tracked_set_pi_skew(skew);
            let run2 = su.sampler.sample::<Tracked>(&xt, &masses, &shifts, &Settings::meta());
            let pi_calls = tracked_pi_calls();
            tracked_set_pi_skew(0.0);
            if let Outcome::Ok(o2) = &run2.outcome {
                let m2 = o2.meta.as_ref().unwrap();
                let base = 2 * ne - 1;
                let d = su.g.d;
                let mut pf: Vec<String> = vec![];
                for c in 0..d * su.loops {
                    let (a, b) = (x[base + 2 * (c / 2)], x[base + 2 * (c / 2) + 1]);
                    let r = (-2.0 * a.ln()).sqrt();
                    let th = 2.0 * std::f64::consts::PI * (1.0 + skew) * b;
                    let want = if c % 2 == 0 { r * th.cos() } else { r * th.sin() };
                    let got = m2.q[c / d][c % d].v;
                    if !((got - want).abs() <= 1e-10 * r.max(1.0)) {
                        pf.push(format!("Gaussian component {}: {:e}, with the user's PI() it must be {:e} (an f64 pi gives {:e})", c, got, want, if c % 2 == 0 { r * (2.0 * std::f64::consts::PI * b).cos() } else { r * (2.0 * std::f64::consts::PI * b).sin() }));
                    }
                }
                acc.count("user_constant_samples_checked");
                acc.add("user_PI_calls_observed", pi_calls);
                if !pf.is_empty() {
                    acc.violate(item, "user_constant_replaced_by_f64", "precision:user_constant", json!({"config": su.describe(), "x": fjv(&x), "failures": pf}));
                }
            }
        }
    }
}

fn ddq(v: &DD) -> Q {
    v.to_q()
}
fn ddm(m: &[Vec<DD>]) -> QM {
    m.iter().map(|r| r.iter().map(ddq).collect()).collect()
}

fn dd_case(item: u64, rng: &mut Rng, acc: &mut Acc) {
    // D = 6 and E <= 6 so that u_vectors expose every Feynman parameter exactly
    let mut o = GraphOpts::std(6);
    o.d_choices = vec![6];
    o.max_loops = 4;
    o.big_loop_prob = 0.0;
    let Some((g, name)) = gen::accepted_graph(rng, &o) else {
        acc.count("setup_failed");
        return;
    };
    let ne = g.ne();
    let sig = gen::routing(rng, &g, 0);
    if sig.iter().any(|r| r.iter().all(|s| *s == 0)) {
        acc.count("skipped_edge_in_no_loop");
        return;
    }
    let Some(kin0) = gen::kinematics(rng, &g, &sig, 0, false) else { return };
    let js: Vec<i32> = (0..ne).map(|_| rng.int(-3, 3) as i32).collect();
    let mut kin = kin0.clone();
    for e in 0..ne {
        kin.shifts[e] = (0..6).map(|k| if k == e { 2f64.powi(js[e]) } else { 0.0 }).collect();
    }
    let Some(su) = Setup::assemble(g, name, sig, kin) else { return };
    let gkey = gen::graph_key(&su.g);
    let nl = su.loops;
    for _ in 0..6 {
        let Some(x) = gen::xpoint(rng, &su.sec, su.dim, XiMode::Uniform, None, false) else { continue };
        // give the inputs full double-double content
        let xt: Vec<DD> = x.iter().map(|v| DD::new(*v, v * rng.range(-0.4, 0.4) * 2f64.powi(-53))).collect();
        let xt: Vec<DD> = xt.iter().enumerate().map(|(i, v)| if i % 2 == 0 && i < 2 * ne - 2 { DD::from(x[i]) } else { *v }).collect();
        let masses: Vec<Option<DD>> = su.kin.masses.iter().map(|m| m.map(DD::from)).collect();
        let shifts: Vec<Vec<DD>> = su.kin.shifts.iter().map(|v| v.iter().map(|c| DD::from(*c)).collect()).collect();
        let run = su.sampler.sample::<DD>(&xt, &masses, &shifts, &Settings::meta());
        acc.evals += 1;
        let Outcome::Ok(o) = &run.outcome else {
            acc.count("dd_sample_not_ok");
            continue;
        };
        let m = o.meta.as_ref().unwrap();
        let all_vals: Vec<&DD> = m.l.iter().flatten().chain(m.inv.iter().flatten()).chain(o.k.iter().flatten()).chain([&o.u, &o.v, &m.lambda]).collect();
        if all_vals.iter().any(|v| !v.hi.is_finite()) {
            acc.count("dd_nonfinite_skipped");
            continue;
        }
        // a double-double keeps 106 bits only while its low word stays a normal f64: values
        // (or their products) close to the f64 exponent limits lose precision in the monitor
        // scalar itself, so such samples cannot be judged
        let wide: Vec<&DD> = all_vals.iter().copied().chain(m.u_vectors.iter().flatten()).chain(m.shift.iter().flatten()).chain(m.qt.iter().flatten()).chain(m.qt_inv.iter().flatten()).collect();
        if wide.iter().any(|v| v.hi != 0.0 && !(v.hi.abs() > 1e-120 && v.hi.abs() < 1e120)) {
            acc.count("dd_exponent_range_skipped");
            continue;
        }
        let l = ddm(&m.l);
        let inv = ddm(&m.inv);
        let qt = ddm(&m.qt);
        let (det_exact, inv_exact) = qm_det_inv(&l);
        let Some(inv_exact) = inv_exact else { continue };
        let kappa = kappa_f(&l, &inv_exact);
        let thr = 2f64.powi(-90) * (1.0 + kappa) * (nl * nl) as f64;
        if thr > 2f64.powi(-62) {
            acc.count("skipped_ill_conditioned");
            continue;
        }
        let mut key = vec![gkey, 2];
        key.extend(x.iter().map(|v| v.to_bits()));
        acc.distinct.insert(hash_u64s(&key));
        let mut fails: Vec<String> = vec![];
        let mut rec = |name: &str, r: f64, fails: &mut Vec<String>, acc: &mut Acc| {
            acc.max(&format!("residual_over_threshold_{}", name), r / thr);
            acc.max("log2_largest_residual", if r > 0.0 { r.log2() } else { -200.0 });
            if !(r <= thr) {
                fails.push(format!("{}: relative residual {:e} = 2^{:.1} (threshold 2^{:.1}; an f64 detour leaves about 2^-53)", name, r, r.log2(), thr.log2()));
            }
        };
        // 1. u = det L
        let r1 = qf(&((ddq(&o.u) - &det_exact).abs() / det_exact.abs()));
        rec("u_vs_det(l_matrix)", r1, &mut fails, acc);
        // 2. inverse * L = I
        let mut p = qm_mul(&inv, &l);
        for i in 0..nl {
            p[i][i] -= qi(1);
        }
        rec("inverse*L-I", frob_f64(&p) / (nl as f64).sqrt(), &mut fails, acc);
        // 3. Q Q^T = L
        let rec3 = qm_mul(&qm_transpose(&qt), &qt);
        let mut d3 = rec3.clone();
        for i in 0..nl {
            for j in 0..nl {
                d3[i][j] -= &l[i][j];
            }
        }
        rec("QQ^T-L", frob_f64(&d3) / frob_f64(&l), &mut fails, acc);
        // recover x_e exactly from the u vectors
        let mut xq: Vec<Q> = vec![];
        for e in 0..ne {
            let lsel = (0..nl).find(|l| su.sig[e][*l] != 0).unwrap();
            let v = ddq(&m.u_vectors[lsel][e]) / (qi(su.sig[e][lsel] as i64) * q(2f64.powi(js[e])));
            xq.push(v);
        }
        // 4. L = sum x_e s s^T with the recovered parameters
        let lx = l_exact(&xq, &su.sig);
        let mut d4 = lx.clone();
        for i in 0..nl {
            for j in 0..nl {
                d4[i][j] -= &l[i][j];
            }
        }
        rec("L_vs_sum_x_s_s^T", frob_f64(&d4) / frob_f64(&l), &mut fails, acc);
        // 5. v = sum x_e (m_e^2 + p_e^2) - u^T inverse u, all from returned values
        let mut a = Q::zero();
        for e in 0..ne {
            let mass = su.kin.masses[e].unwrap_or(0.0);
            a += &xq[e] * (q(mass) * q(mass) + q(4f64.powi(js[e])));
        }
        let mut b = Q::zero();
        let mut b_maj = Q::zero();
        let uv: Vec<Vec<Q>> = m.u_vectors.iter().map(|v| v.iter().map(ddq).collect()).collect();
        for i in 0..nl {
            for j in 0..nl {
                let dot: Q = (0..6).map(|k| &uv[i][k] * &uv[j][k]).fold(Q::zero(), |x, y| x + y);
                let t = dot * &inv[i][j];
                b_maj += t.abs();
                b += t;
            }
        }
        let vq = &a - &b;
        let scale = qf(&(a.abs() + b_maj));
        rec("v_vs_A-u^T_inv_u", qf(&(ddq(&o.v) - &vq).abs()) / scale, &mut fails, acc);
        // 6. shift = inverse * u_vectors
        let mut worst = 0.0f64;
        let mut kworst = 0.0f64;
        let two_lambda = qi(2) * ddq(&m.lambda);
        let qti = ddm(&m.qt_inv);
        for li in 0..nl {
            for k in 0..6 {
                let mut s = Q::zero();
                let mut maj = Q::zero();
                let mut w = Q::zero();
                let mut wmaj = Q::zero();
                for lj in 0..nl {
                    let t = &inv[li][lj] * &uv[lj][k];
                    maj += t.abs();
                    s += t;
                    let t2 = &qti[li][lj] * ddq(&m.q[lj][k]);
                    wmaj += t2.abs();
                    w += t2;
                }
                if !maj.is_zero() {
                    worst = worst.max(qf(&((ddq(&m.shift[li][k]) - &s).abs() / &maj)));
                }
                // 7. (k + shift)^2 * 2 lambda = v * w^2, same sign
                let y = ddq(&o.k[li][k]) + ddq(&m.shift[li][k]);
                let lhs = &y * &y * &two_lambda;
                let rhs = ddq(&o.v) * &w * &w;
                // scale: magnitudes of the terms that were summed (and may have cancelled) to form
                // k and the shift: sqrt(v)*sum|Qt^-1 q| and sqrt(2 lambda)*sum|inverse*u|
                let sv = qf(&ddq(&o.v).abs()).sqrt() * qf(&wmaj) + qf(&two_lambda).sqrt() * (qf(&maj) + qf(&ddq(&m.shift[li][k]).abs()) + qf(&ddq(&o.k[li][k]).abs()));
                let den = q(sv * sv);
                if !den.is_zero() {
                    let r = qf(&((&lhs - &rhs).abs() / &den));
                    if std::env::var("C19_DEBUG").is_ok() && r > 1e-25 {
                        eprintln!("   q={:?} qt_inv_row={:?} u_vectors={:?} inv_row={:?}", m.q.iter().map(|v| v[k]).collect::<Vec<_>>(), m.qt_inv[li], m.u_vectors.iter().map(|v| v[k]).collect::<Vec<_>>(), m.inv[li]);
                        eprintln!("loop {} comp {}: k={:?} shift={:?} y={:e} w={:e} lhs={:e} rhs={:e} den={:e} r={:e} v={:?} lambda={:?}", li, k, o.k[li][k], m.shift[li][k], qf(&y), qf(&w), qf(&lhs), qf(&rhs), qf(&den), r, o.v, m.lambda);
                    }
                    kworst = kworst.max(r);
                }
                if (y.is_positive() && w.is_negative()) || (y.is_negative() && w.is_positive()) {
                    if qf(&(y.abs() / (ddq(&o.k[li][k]).abs() + ddq(&m.shift[li][k]).abs()))) > 2f64.powi(-60) {
                        kworst = 1.0;
                    }
                }
            }
        }
        rec("shift_vs_inverse*u_vectors", worst, &mut fails, acc);
        rec("loop_momenta_vs_gaussian_map", kworst, &mut fails, acc);
        acc.count("dd_samples_checked");
        if acc.samples.is_empty() {
            acc.sample(json!({"graph": su.g.describe(), "kappa_F": kappa, "log2_threshold": thr.log2(), "log2_residual_u_vs_det": if r1 > 0.0 { r1.log2() } else { -200.0 }}));
        }
        if !fails.is_empty() {
            acc.violate(item, "precision_lost", "precision:residual", json!({"config": su.describe(), "x": fjv(&x), "kappa_F": kappa, "failures": fails}));
        }
    }
}

pub fn run(ctx: &Ctx) -> i32 {
    let mut range_note: Option<String> = None;
    let range = match gamma_fn_range() {
        Some(r) => r,
        None => {
            // cannot locate the function (renamed / moved): fall back to "anywhere in gamma.rs"
            // and say so; monitor 2 is unaffected
            range_note = Some("`pub fn inverse_gamma_lr` not found in src/gamma.rs: narrowing sites were only required to lie in gamma.rs".into());
            ("gamma.rs".to_string(), 1, u32::MAX)
        }
    };
    let quick = ctx.quick();
    let n_items = ctx.n(2000, 12000);
    let acc = par_items(ctx, "C19", n_items, |item, rng, acc| {
        if item % 2 == 0 {
            census_case(item, rng, acc, &range, quick)
        } else {
            dd_case(item, rng, acc)
        }
    });
    let fin = Finish::new(
        "accepted connected graphs, 1-4/5 loops, D=1..6, uniform and corner points, debug output off, metadata on and off, stability test on and off. \
         Monitor 1 (census): sample() runs with an instrumented scalar whose to_f64/from_f64 are #[track_caller]; every narrowing must lie inside `inverse_gamma_lr` (line range parsed from the current gamma.rs) and be exactly (shape, probability, tolerance) with only the probability depending on coordinate 2E-2. \
         Monitor 2 (double-double): sample() runs with a 106-bit scalar on D=6, E<=6 graphs whose shifts 2^j e_e expose every Feynman parameter; u=det L, inverse*L=I, QQ^T=L, L=sum x s s^T, v=A-u^T inv u, shift=inv*u, (k+shift)^2 2 lambda = v (Q^-T q)^2 verified in exact rational arithmetic to 2^-90*kappa. \
         distinct = distinct (graph, x-point, monitor)",
    )
    .assume("to_f64 is the only way the MomTropFloat trait lets a value leave the user's type, so the census is complete for narrowing as an information flow")
    .extra("gamma_function_line_range", json!({"file": range.0, "first": range.1, "last": range.2}))
    .min(500);
    let mut fin = fin;
    if let Some(n) = range_note {
        fin.inconclusive.push(n);
    }
    finish(ctx, acc, fin)
}
