//! C04 — J-function obeys its recursion exactly; I_tr and the cached normalisation follow.
use crate::gen;
use crate::oracle::*;
use crate::run::{Build, DynSampler, GraphSpec, TableView};
use crate::special::ln_gamma;
use crate::util::*;
use num::{One, Signed, Zero};
use serde_json::json;

/// independent value of J(G) Gamma(omega)/prod Gamma(w) pi^(DL/2)
pub fn normalisation_oracle(g: &GraphSpec, j_full: f64, omega: f64, loops: usize) -> f64 {
    let mut ln = ln_gamma(omega);
    for w in &g.weights {
        ln -= ln_gamma(*w);
    }
    ln += (g.d * loops) as f64 / 2.0 * std::f64::consts::PI.ln();
    j_full * ln.exp()
}

pub fn check_graph(item: u64, g: &GraphSpec, desc: &str, sig: &[Vec<isize>], acc: &mut Acc) {
    let go = GO::new(g);
    let ne = go.ne;
    let Build::Ok(s) = DynSampler::build(g, sig) else {
        acc.count("not_accepted_by_build_sampler");
        return;
    };
    let Some(tv) = s.table_view() else {
        acc.count("harness_errors");
        return;
    };
    let om = go.omega_table();
    let Some(jx) = go.j_table(&om) else {
        acc.count("skipped_zero_omega");
        return;
    };
    acc.evals += 1;
    let full = go.full() as usize;
    // "dyadic" here means: the table's own generalised dods equal the exact rational ones, so
    // the recursion is compared at the tight tolerance (true for all exactly representable weights)
    let full_m = go.full() as usize;
    let dyadic = tv.dod.len() == full_m + 1 && (0..=full_m).all(|m| tv.dod[m].is_finite() && q(tv.dod[m]) == om[m]);
    acc.count(if dyadic { "graphs_with_exact_table_dods" } else { "graphs_with_rounded_table_dods" });
    // oracle self-check: recursion vs sum over all E! orderings
    if ne <= 6 {
        let jp = go.j_by_permutations(&om);
        acc.count("oracle_selfcheck_permutation_sum");
        if jp != jx[full] {
            acc.count("harness_errors");
            acc.set("harness_error_messages", "oracle J recursion != permutation sum".into());
            return;
        }
    }
    let wsum: f64 = g.weights.iter().sum();
    let om_min = om[1..full.max(1)].iter().map(|x| qf(&x.abs())).fold(f64::INFINITY, f64::min);
    acc.set("smallest_sub_dod_decades", format!("1e{:03}", om_min.log10().floor() as i64));
    let rel_tol = 64.0 * ne as f64 * EPS * if dyadic { 1.0 } else { 1.0 + ne as f64 * wsum / om_min.max(1e-300) };
    let mut bad: Vec<String> = vec![];
    if tv.j.len() != full + 1 {
        bad.push("table size".into());
    } else {
        if tv.j[0] != 1.0 {
            bad.push(format!("J(empty) = {:e}, not 1", tv.j[0]));
        }
        for m in 0..=full {
            let exact = &jx[m];
            let got = tv.j[m];
            // only subsets reachable from the full graph by removing edges are filled by the
            // recursion; all of them are (every subset is reachable)
            let ok = got.is_finite() && (q(got) - exact).abs() <= exact.abs() * q(rel_tol);
            let r = if got.is_finite() && !exact.is_zero() { qf(&((q(got) - exact).abs() / exact.abs())) / rel_tol } else { f64::INFINITY };
            acc.max("J_error_over_bound", r);
            if !ok {
                bad.push(format!("subset {}: J = {:e}, exact {:e}", m, got, qf(exact)));
                if bad.len() > 6 {
                    break;
                }
            }
        }
        acc.add("subsets_checked", (full + 1) as u64);
        // the recursion itself on the table's own numbers (independent of the oracle's omega):
        // J(g) = sum_e J(g\e)/omega(g\e), probabilities sum to one
        for m in 1..=full {
            let mut ssum = 0.0;
            let mut psum = 0.0;
            for e in 0..ne {
                if m >> e & 1 == 1 {
                    let sub = m ^ (1 << e);
                    ssum += tv.j[sub] / tv.dod[sub];
                    psum += tv.j[sub] / tv.j[m] / tv.dod[sub];
                }
            }
            let r1 = ((ssum - tv.j[m]) / tv.j[m]).abs();
            if !(r1 <= 16.0 * ne as f64 * EPS) || !((psum - 1.0).abs() <= 16.0 * ne as f64 * EPS) {
                bad.push(format!("subset {}: recursion on table values: sum {:e} vs J {:e}; probabilities sum to {:e}", m, ssum, tv.j[m], psum));
                if bad.len() > 6 {
                    break;
                }
            }
        }
    }
    // cached normalisation (only where the overall dod is positive)
    let omega = qf(&go.dod());
    let loops = go.cyclomatic(go.full());
    if go.dod().is_positive() && !(tv.graph_dod > 0.0) {
        // the exact overall dod is positive but its f64 evaluation is not: outside the domain the
        // library can recognise as accepted; nothing to compare
        acc.count("cached_factor_skipped_overall_dod_rounds_to_nonpositive");
    } else if go.dod().is_positive() {
        let want = normalisation_oracle(g, qf(&jx[full]), omega, loops);
        if !(want.is_finite() && want > 1e-290 && want < 1e290) {
            // the exact normalisation itself is not a (normal) f64: nothing the library could store
            acc.count("cached_factor_skipped_exact_value_not_representable");
        } else {
            let rel = ((tv.cached_factor - want) / want).abs();
            // Gamma near its pole at 0 amplifies the rounding of omega itself
            let amp = 1.0 + wsum / omega * if dyadic { 0.0 } else { 1.0 };
            // ln Gamma of large arguments: the absolute error of the logarithm is relative in the value
            let lnmag: f64 = ln_gamma(omega).abs() + g.weights.iter().map(|w| ln_gamma(*w).abs()).sum::<f64>();
            let tolc = 1e-11 * amp + rel_tol + 64.0 * EPS * lnmag;
            acc.max("cached_factor_relerr_over_tol", rel / tolc);
            acc.count("cached_factor_checked");
            if omega >= 170.0 {
                acc.count("cached_factor_checked_beyond_gamma_overflow");
            }
            if !(rel <= tolc) {
                bad.push(format!("cached_factor {:e} vs J(G) Gamma(dod)/prod Gamma(w) pi^(DL/2) = {:e} (rel {:e})", tv.cached_factor, want, rel));
            }
        }
    } else {
        acc.count("cached_factor_skipped_dod<=0");
    }
    if ne >= 2 {
        acc.distinct.insert(gen::graph_key(g));
    }
    acc.set("E_values", format!("{:02}", ne));
    if acc.samples.is_empty() {
        acc.sample(json!({"graph": g.describe(), "generator": desc, "J_full_exact": jx[full].to_string(), "J_full_table": tv.j[full], "cached_factor": tv.cached_factor}));
    }
    if !bad.is_empty() {
        let clause = if bad[0].contains("cached_factor") {
            "cached_factor"
        } else if bad[0].contains("recursion on table") {
            "recursion"
        } else {
            "j_value"
        };
        acc.violate(item, clause, &format!("jfunction:{}", clause), json!({"graph": g.describe(), "generator": desc, "failures": bad}));
    }
    let _ = Q::one();
}

pub fn run(ctx: &Ctx) -> i32 {
    let emax = if ctx.quick() { 8 } else { 11 };
    let n_items = ctx.n(3000, 30000);
    let acc = par_items(ctx, "C04", n_items, |item, rng, acc| {
        for _ in 0..6 {
            let (g, desc) = gen::any_graph(rng, emax);
            let sig = gen::any_signature(rng, &g);
            check_graph(item, &g, &desc, &sig, acc);
        }
    });
    let fin = Finish::new(
        "graphs from the C03 generator that build_sampler accepts (incl. disconnected, non-spanning full sets, massive edges, dyadic and non-dyadic weights); J of ALL 2^E subsets compared with the exact rational recursion computed from the oracle's own omega \
         (relative tolerance 64*E*eps, widened for non-dyadic weights); the recursion and sum of probabilities re-evaluated on the table's own numbers; cached_factor compared with J(G) Gamma(dod)/prod Gamma(w) pi^(DL/2) using an independent Lanczos Gamma (1e-11). \
         Oracle self-check: recursion == sum over all E! orderings for E<=6. distinct = distinct accepted graphs with E>=2",
    )
    .assume("independent lnGamma (Lanczos g=7) accurate to ~1e-14 relative")
    .min(100);
    finish(ctx, acc, fin)
}
