//! C20 — Vector and f64 scalar primitives implement their componentwise definitions.
//! Reference-model monitor, bit-for-bit.
use crate::util::*;
use momtrop::float::MomTropFloat;
use momtrop::vector::Vector;
use serde_json::json;

pub fn hostile_f64(rng: &mut Rng) -> f64 {
    let sign = if rng.chance(0.5) { -1.0 } else { 1.0 };
    let v = match rng.below(14) {
        0 => 0.0,
        1 => f64::MAX,
        2 => f64::MIN_POSITIVE,
        3 => f64::from_bits(rng.u64() & 0x000f_ffff_ffff_ffff), // subnormal
        4 => 10f64.powf(rng.range(150.0, 308.0)),               // squares overflow
        5 => 10f64.powf(rng.range(-320.0, -150.0)),             // squares underflow
        6 => rng.int(-1000, 1000) as f64,
        7 => rng.int(-40, 40) as f64 / 8.0,
        8 | 9 => rng.normal() * 10f64.powf(rng.range(-3.0, 3.0)),
        10 => 1.0 + rng.int(-3, 3) as f64 * f64::EPSILON,
        11 => {
            // random finite bit pattern
            loop {
                let x = f64::from_bits(rng.u64());
                if x.is_finite() {
                    break x.abs();
                }
            }
        }
        _ => rng.f(),
    };
    sign * v
}

fn same(a: f64, b: f64) -> bool {
    (a.is_nan() && b.is_nan()) || a.to_bits() == b.to_bits()
}

fn vec_case<const D: usize>(item: u64, rng: &mut Rng, acc: &mut Acc) {
    let a_arr: [f64; D] = std::array::from_fn(|_| hostile_f64(rng));
    let b_arr: [f64; D] = std::array::from_fn(|_| hostile_f64(rng));
    let s = hostile_f64(rng);
    let a = Vector::<f64, D>::from_array(a_arr);
    let b = Vector::<f64, D>::from_array(b_arr);
    let bad: std::cell::RefCell<Vec<String>> = std::cell::RefCell::new(vec![]);
    let chk = |name: &str, got: f64, want: f64| {
        if !same(got, want) {
            bad.borrow_mut().push(format!("{}: got {:e} [{:016x}] want {:e} [{:016x}]", name, got, got.to_bits(), want, want.to_bits()));
        }
    };
    // constructors / accessors
    let fv = Vector::<f64, D>::from_vec(a_arr.to_vec());
    let fs = Vector::<f64, D>::from_slice(&a_arr);
    let ge = a.get_elements();
    for i in 0..D {
        chk("from_array/index", a[i], a_arr[i]);
        chk("from_vec", fv[i], a_arr[i]);
        chk("from_slice", fs[i], a_arr[i]);
        chk("get_elements", ge[i], a_arr[i]);
    }
    if a.len() != D {
        bad.borrow_mut().push(format!("len {} != {}", a.len(), D));
    }
    let z = a.new();
    let z2 = Vector::<f64, D>::new_from_num(&s);
    for i in 0..D {
        chk("new()", z[i], 0.0);
        chk("new_from_num", z2[i], 0.0);
    }
    chk("zero()", a.zero(), 0.0);
    let mut im = a;
    let idx = rng.below(D);
    im[idx] = s;
    for i in 0..D {
        chk("index_mut", im[i], if i == idx { s } else { a_arr[i] });
    }
    // arithmetic
    let sum = &a + &b;
    let dif = &a - &b;
    let sc = &a * s;
    let scr = &a * &s;
    let mut pe = a;
    pe += b;
    for i in 0..D {
        chk("add", sum[i], a_arr[i] + b_arr[i]);
        chk("sub", dif[i], a_arr[i] - b_arr[i]);
        chk("mul_value", sc[i], a_arr[i] * s);
        chk("mul_ref", scr[i], a_arr[i] * s);
        chk("add_assign", pe[i], a_arr[i] + b_arr[i]);
    }
    let mut dot = 0.0;
    let mut dot_ba = 0.0;
    let mut sq = 0.0;
    for i in 0..D {
        dot = dot + a_arr[i] * b_arr[i];
        dot_ba = dot_ba + b_arr[i] * a_arr[i];
        sq = sq + a_arr[i] * a_arr[i];
    }
    chk("dot", a.dot(&b), dot);
    chk("dot_symmetric", b.dot(&a), dot_ba);
    chk("dot_symmetric_value", b.dot(&a), a.dot(&b));
    chk("squared", a.squared(), sq);
    chk("squared_is_dot_self", a.squared(), a.dot(&a));
    // wrong length must panic
    if rng.chance(0.02) {
        let r = catch(|| Vector::<f64, D>::from_vec(vec![0.0; D + 1]));
        if r.is_ok() {
            bad.borrow_mut().push("from_vec with wrong length did not panic".into());
        }
        acc.count("from_vec_wrong_length_probes");
    }
    acc.evals += 1;
    acc.count(&format!("vector_cases_D{}", D));
    if a_arr.iter().any(|x| *x != 0.0) && b_arr.iter().any(|x| *x != 0.0) {
        let mut key = vec![D as u64];
        key.extend(a_arr.iter().map(|x| x.to_bits()));
        key.extend(b_arr.iter().map(|x| x.to_bits()));
        acc.distinct.insert(hash_u64s(&key));
    }
    if dot.is_nan() || dot.is_infinite() {
        acc.count("dot_nonfinite_cases");
    }
    if acc.samples.is_empty() {
        acc.sample(json!({"D": D, "a": fjv(&a_arr), "b": fjv(&b_arr), "s": fj(s), "dot": fj(a.dot(&b)), "squared": fj(a.squared())}));
    }
    let bad = bad.into_inner();
    if !bad.is_empty() {
        acc.violate(
            item,
            "vector_primitive",
            &format!("vector:{}", bad[0].split(':').next().unwrap_or("")),
            json!({"D": D, "a": fjv(&a_arr), "b": fjv(&b_arr), "s": fj(s), "mismatches": bad}),
        );
    }
}

fn scalar_case(item: u64, rng: &mut Rng, acc: &mut Acc) {
    let x = hostile_f64(rng);
    let y = hostile_f64(rng);
    let b = 1.0f64; // builder
    let bad: std::cell::RefCell<Vec<String>> = std::cell::RefCell::new(vec![]);
    let chk = |name: &str, got: f64, want: f64| {
        if !same(got, want) {
            bad.borrow_mut().push(format!("{}: got {:e} [{:016x}] want {:e} [{:016x}]", name, got, got.to_bits(), want, want.to_bits()));
        }
    };
    chk("inv", MomTropFloat::inv(&x), 1.0 / x);
    chk("ln", MomTropFloat::ln(&x), f64::ln(x));
    chk("exp", MomTropFloat::exp(&x), f64::exp(x));
    chk("sin", MomTropFloat::sin(&x), f64::sin(x));
    chk("cos", MomTropFloat::cos(&x), f64::cos(x));
    chk("sqrt", MomTropFloat::sqrt(&x), f64::sqrt(x));
    chk("abs", MomTropFloat::abs(&x), f64::abs(x));
    chk("powf", MomTropFloat::powf(&x, &y), f64::powf(x, y));
    chk("from_f64", b.from_f64(x), x);
    chk("to_f64", MomTropFloat::to_f64(&x), x);
    chk("PI", x.PI(), std::f64::consts::PI);
    chk("zero", x.zero(), 0.0);
    chk("one", x.one(), 1.0);
    let i: isize = match rng.below(5) {
        0 => rng.int(-10, 10) as isize,
        1 => rng.int(-(1 << 53), 1 << 53) as isize,
        2 => [1isize << 53, -(1isize << 53), (1 << 53) - 1, isize::MAX, isize::MIN, 0][rng.below(6)],
        _ => (rng.u64() >> rng.below(63)) as i64 as isize,
    };
    let fi = b.from_isize(i);
    chk("from_isize", fi, i as f64);
    if (i as i128).abs() <= (1i128 << 53) && (fi as i128) != i as i128 {
        bad.borrow_mut().push(format!("from_isize not exact for {}", i));
    }
    acc.evals += 1;
    acc.count("scalar_cases");
    if x != 0.0 {
        acc.distinct.insert(hash_u64s(&[99, x.to_bits(), y.to_bits(), i as u64]));
    }
    let bad = bad.into_inner();
    if !bad.is_empty() {
        acc.violate(
            item,
            "f64_scalar_primitive",
            &format!("scalar:{}", bad[0].split(':').next().unwrap_or("")),
            json!({"x": fj(x), "y": fj(y), "i": i, "mismatches": bad}),
        );
    }
}

pub fn miri_case(item: u64, rng: &mut Rng, acc: &mut Acc) {
    match item % 9 {
        0 => vec_case::<1>(item, rng, acc),
        1 => vec_case::<2>(item, rng, acc),
        2 => vec_case::<3>(item, rng, acc),
        3 => vec_case::<4>(item, rng, acc),
        4 => vec_case::<5>(item, rng, acc),
        5 => vec_case::<6>(item, rng, acc),
        6 => vec_case::<7>(item, rng, acc),
        7 => vec_case::<8>(item, rng, acc),
        _ => scalar_case(item, rng, acc),
    }
}

pub fn run(ctx: &Ctx) -> i32 {
    let per_item = 2000usize;
    let n_items = ctx.n(2500, 50_000);
    let acc = par_items(ctx, "C20", n_items, |item, rng, acc| {
        for k in 0..per_item {
            let sub = item * per_item as u64 + k as u64;
            let _ = sub;
            match rng.below(10) {
                0 => vec_case::<1>(item, rng, acc),
                1 => vec_case::<2>(item, rng, acc),
                2 => vec_case::<3>(item, rng, acc),
                3 => vec_case::<4>(item, rng, acc),
                4 => vec_case::<5>(item, rng, acc),
                5 => vec_case::<6>(item, rng, acc),
                6 => vec_case::<7>(item, rng, acc),
                7 => vec_case::<8>(item, rng, acc),
                _ => scalar_case(item, rng, acc),
            }
        }
    });
    let fin = Finish::new(
        "random hostile f64 components (zeros, subnormals, +-MAX, overflow/underflow magnitudes, random bit patterns) for D=1..8; \
         every Vector operation and every f64 MomTropFloat method compared bit for bit with plain left-to-right IEEE loops / std functions; \
         distinct = distinct (D, a, b) bit patterns with a non-zero component in both vectors, or distinct non-zero scalar arguments",
    )
    .assume("rustc does not contract a*b+c into fma (it does not on x86_64 without explicit intrinsics)")
    .assume("NaN results are compared as NaN==NaN (payload/sign of NaN not part of the property)")
    .min(10_000);
    finish(ctx, acc, fin)
}
