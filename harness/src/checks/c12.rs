//! C12 — Gamma quantile is positive and accurate; failures are errors, not values.
use crate::gen::{self, GraphOpts, XiMode};
use crate::oracle::GO;
use crate::run::{DynSampler, Outcome, Settings};
use crate::special::{gamma, gamma_pq};
use crate::util::*;
use momtrop::gamma::inverse_gamma_lr;
use serde_json::json;

#[derive(Debug)]
pub enum GOut {
    Ok(f64),
    Err,
    Panic(String),
}

pub fn call(a: f64, p: f64) -> GOut {
    match catch(|| inverse_gamma_lr(&a, &p, 50, &5.0)) {
        Ok(Ok(v)) => GOut::Ok(v),
        Ok(Err(_)) => GOut::Err,
        Err(m) => GOut::Panic(m),
    }
}

/// starting-value branch class, for coverage accounting only (never for a verdict)
fn branch_class(a: f64, p: f64) -> &'static str {
    let q = 1.0 - p;
    if (1.0 - 1.0e-8..=1.0 + 1.0e-8).contains(&a) {
        return "a~1_shortcut";
    }
    let b = q * gamma(a);
    if a < 1.0 {
        if b > 0.6 || (b >= 0.45 && a >= 0.3) {
            if b * q > 10e-8 {
                "a<1:b_large:power"
            } else {
                "a<1:b_large:exp"
            }
        } else if a < 0.3 && (0.35..=0.6).contains(&b) {
            "a<0.3:b_0.35-0.6"
        } else if (0.15..=0.35).contains(&b) || ((0.15..0.45).contains(&b) && a >= 0.3) {
            "a<1:b_0.15-0.45"
        } else if 0.01 < b && b < 0.15 {
            "a<1:b_0.01-0.15"
        } else if b <= 0.01 {
            if b <= 1.0e-28 {
                "a<1:b<=1e-28_early_return"
            } else {
                "a<1:b<=0.01"
            }
        } else {
            "a<1:no_branch(x0=0.5)"
        }
    } else if p < 0.5 {
        "a>1:p<0.5"
    } else {
        "a>1:p>=0.5"
    }
}

fn a_value(rng: &mut Rng) -> f64 {
    match rng.below(12) {
        0 => 0.05,
        1 => 100.0,
        2 => {
            // all scales of |a-1| from 1e-9 to 1e-4, on both sides (the a~1 special case and its rim)
            let d = 10f64.powf(-rng.range(4.0, 9.0));
            if rng.chance(0.5) {
                1.0 + d
            } else {
                1.0 - d
            }
        }
        3 => [1.0 - 1e-8, 1.0 + 1e-8, 1.0 - 2e-8, 1.0 + 2e-8, 1.0, 1.0 + 2.5e-8 * (rng.f() - 0.5)][rng.below(6)],
        4 => 0.3 + rng.range(-1e-6, 1e-6),
        5 => rng.int(1, 100) as f64,
        6 => rng.int(1, 199) as f64 / 2.0,
        7 => rng.range(0.05, 0.4),
        8 => rng.range(0.05, 1.0),
        _ => 0.05 * (2000f64).powf(rng.f()), // geometric on [0.05,100]
    }
}

fn p_value(rng: &mut Rng) -> f64 {
    let v = match rng.below(12) {
        0 => 0.0,
        1 => 5e-324,
        2 => 1.0 - 2f64.powi(-(rng.int(1, 53) as i32)),
        3 => 2f64.powi(-(rng.int(1, 1074) as i32)),
        4 => 10f64.powf(-rng.range(0.0, 18.0)),
        5 => 1.0 - 10f64.powf(-rng.range(0.0, 15.9)),
        6 => 0.5 + rng.range(-1e-9, 1e-9),
        7 => ulps(0.5, rng.int(-2, 2) as i32),
        _ => rng.f(),
    };
    if (0.0..1.0).contains(&v) {
        v
    } else {
        0.5
    }
}

fn direct_case(item: u64, rng: &mut Rng, acc: &mut Acc) {
    let a = a_value(rng).clamp(0.05, 100.0);
    let p = p_value(rng);
    check_pair(item, a, p, acc);
}

pub fn check_pair(item: u64, a: f64, p: f64, acc: &mut Acc) {
    acc.evals += 1;
    let class = branch_class(a, p);
    acc.set("branch_classes", class.to_string());
    acc.count(&format!("branch_{}", class));
    let out = call(a, p);
    // is the true quantile at least 1e-13 ?
    let (p_at, _) = gamma_pq(a, 1e-13);
    let quantile_ge = quantile_ge_1e13(a, p);
    if class != "a~1_shortcut" {
        acc.distinct.insert(hash_u64s(&[a.to_bits(), p.to_bits()]));
    }
    match out {
        GOut::Panic(m) => {
            acc.count("outcome_panic");
            acc.violate(item, "panic", "gamma:panic", json!({"a": fj(a), "p": fj(p), "panic": m, "branch": class}));
        }
        GOut::Err => {
            acc.count("outcome_Err");
            if quantile_ge {
                acc.count("err_with_quantile_ge_1e-13");
                acc.violate(
                    item,
                    "error_where_value_required",
                    "gamma:err_quantile_ge_1e-13",
                    json!({"a": fj(a), "p": fj(p), "P(a,1e-13)": fj(p_at), "branch": class}),
                );
            } else {
                acc.count("err_in_carve_out(quantile<1e-13)");
            }
        }
        GOut::Ok(l) => {
            acc.count("outcome_Ok");
            if !(l.is_finite() && l > 0.0) {
                let kind = if l == 0.0 {
                    if l.is_sign_negative() {
                        "negative_zero"
                    } else {
                        "zero"
                    }
                } else if l < 0.0 {
                    "negative"
                } else if l.is_infinite() {
                    "infinite"
                } else {
                    "other"
                };
                acc.violate(
                    item,
                    "ok_not_finite_positive",
                    &format!("gamma:ok_nonpositive:{}", kind),
                    json!({"a": fj(a), "p": fj(p), "lambda": fj(l), "branch": class}),
                );
                return;
            }
            if acc.samples.is_empty() {
                acc.sample(json!({"a": a, "p": p, "lambda": l, "branch": class, "P(a,lambda)": gamma_pq(a, l).0}));
            }
            if quantile_ge {
                let (pp, qq) = gamma_pq(a, l);
                let err = if p > 0.5 { (qq - (1.0 - p)).abs() } else { (pp - p).abs() };
                acc.max("abs_error_P(a,lambda)-p", err);
                acc.count("accuracy_checked");
                if !(err <= 2e-8) {
                    acc.violate(
                        item,
                        "inaccurate",
                        "gamma:inaccurate",
                        json!({"a": fj(a), "p": fj(p), "lambda": fj(l), "P(a,lambda)": fj(pp), "Q(a,lambda)": fj(qq), "abs_error": fj(err), "branch": class}),
                    );
                }
            } else {
                acc.count("ok_in_carve_out(quantile<1e-13)");
            }
        }
    }
}

/// true quantile >= 1e-13  <=>  P(a,1e-13) <= p, decided in log space (P underflows for large a)
pub fn quantile_ge_1e13(a: f64, p: f64) -> bool {
    if p <= 0.0 {
        return false;
    }
    crate::special::ln_p_small(a, 1e-13) <= p.ln()
}

/// monotonicity along a sorted p-grid at fixed a
fn grid_case(item: u64, rng: &mut Rng, acc: &mut Acc) {
    let a = a_value(rng).clamp(0.05, 100.0);
    let n = 400;
    let mut ps: Vec<f64> = (0..n).map(|_| p_value(rng)).collect();
    ps.sort_by(|x, y| x.partial_cmp(y).unwrap());
    let mut last: Option<(f64, f64, f64)> = None; // (p, lambda, P(a,lambda))
    for &p in &ps {
        check_pair(item, a, p, acc);
        if !quantile_ge_1e13(a, p) {
            continue;
        }
        if let GOut::Ok(l) = call(a, p) {
            if !(l.is_finite() && l > 0.0) {
                continue;
            }
            let (pp, qq) = gamma_pq(a, l);
            if let Some((p0, l0, pp0)) = last {
                // P(a, lambda(p)) must be non-decreasing in p up to 4e-8
                let back = if p > 0.5 && p0 > 0.5 { qq - gamma_pq(a, l0).1 } else { pp0 - pp };
                acc.max("monotonicity_backstep", back);
                acc.count("monotonicity_pairs");
                if back > 4e-8 {
                    acc.violate(
                        item,
                        "not_monotone",
                        "gamma:not_monotone",
                        json!({"a": fj(a), "p_lo": fj(p0), "lambda_lo": fj(l0), "p_hi": fj(p), "lambda_hi": fj(l), "backstep_in_P": fj(back)}),
                    );
                }
            }
            last = Some((p, l, pp));
        }
    }
}

/// the lambda of a sample is this function of (dod, designated coordinate)
fn sample_case(item: u64, rng: &mut Rng, acc: &mut Acc) {
    let Some((g, name)) = gen::accepted_graph(rng, &GraphOpts::std(6)) else {
        acc.count("graph_generation_failed");
        return;
    };
    let sig = gen::routing(rng, &g, 2);
    let Some(s) = DynSampler::build(&g, &sig).ok() else {
        acc.count("unexpected_build_failure");
        return;
    };
    let go = GO::new(&g);
    let Some(sec) = gen::Sector::new(&go) else { return };
    let Some(kin) = gen::kinematics(rng, &g, &sig, 4, false) else { return };
    let dim = s.dimension();
    let omega = s.dod();
    let idx = 2 * g.ne() - 2;
    for _ in 0..30 {
        let Some(mut x) = gen::xpoint(rng, &sec, dim, XiMode::Benign, None, false) else { continue };
        x[idx] = p_value(rng);
        let run = s.sample::<f64>(&x, &kin.masses, &kin.shifts, &Settings::meta());
        let direct = call(omega, x[idx]);
        acc.evals += 1;
        acc.count("sample_linkage_cases");
        acc.distinct.insert(hash_u64s(&[gen::graph_key(&g), x[idx].to_bits()]));
        let detail = || json!({"graph": g.describe(), "name": name, "omega": fj(omega), "lambda_coordinate_index": idx, "x": fjv(&x), "direct": format!("{:?}", direct)});
        match (&run.outcome, &direct) {
            (Outcome::Ok(o), GOut::Ok(l)) => {
                let ml = o.meta.as_ref().unwrap().lambda;
                if ml.to_bits() != l.to_bits() && !(ml.is_nan() && l.is_nan()) {
                    acc.violate(item, "sample_lambda_differs", "gamma:sample_lambda_differs", json!({"case": detail(), "metadata_lambda": fj(ml)}));
                } else {
                    acc.count("sample_lambda_bit_identical");
                }
            }
            (Outcome::Ok(_), _) => {
                acc.violate(item, "sample_ok_but_direct_errs", "gamma:sample_ok_direct_err", detail());
            }
            (Outcome::Err(e), GOut::Ok(_)) if e.starts_with("GammaError") => {
                acc.violate(item, "sample_gamma_error_but_direct_ok", "gamma:sample_err_direct_ok", detail());
            }
            (Outcome::Err(e), _) => acc.count(&format!("sample_{}", e)),
            (Outcome::Panic(m), _) => {
                acc.count("sample_panic");
                acc.violate(item, "panic", "gamma:sample_panic", json!({"case": detail(), "panic": m}));
            }
        }
    }
}

pub fn run(ctx: &Ctx) -> i32 {
    let (st_err, st_n) = crate::special::self_test();
    if !(st_err < 1e-11) {
        out(&format!("INCONCLUSIVE property=C12 oracle self-test failed: max error {:e} over {} identities", st_err, st_n));
        return inconclusive_exit();
    }
    let n_items = ctx.n(3000, 60_000);
    let acc = par_items(ctx, "C12", n_items, |item, rng, acc| match item % 6 {
        0 => grid_case(item, rng, acc),
        1 => sample_case(item, rng, acc),
        _ => {
            for _ in 0..2000 {
                direct_case(item, rng, acc);
            }
        }
    });
    let fin = Finish::new(
        "(a,p) pairs: a in [0.05,100] (end points, a within 2.5e-8 of 1, 0.3+-1e-6, integers, half-integers, geometric), p in [0,1) (0, 5e-324, 2^-k, 1-2^-k to k=53, 10^-U(0,18), around 1/2, uniform); sorted p-grids per a; and samples of accepted graphs. \
         Oracle: independent series/continued-fraction P,Q (no small-x shortcut). Ok => finite and >0; true quantile >= 1e-13 => Ok with |P(a,lambda)-p| <= 2e-8; monotone within 4e-8; no panic; Metadata.lambda bit-identical to the direct call on (dod, x[2E-2]). \
         distinct = distinct (a,p) bit patterns outside the a~1 shortcut, plus distinct (graph, lambda coordinate)",
    )
    .assume("independent incomplete-gamma implementation accurate to ~1e-13 absolute (self-tested against closed forms at start-up)")
    .extra("oracle_self_test", json!({"identities": st_n, "max_error": st_err}))
    .min(10_000);
    finish(ctx, acc, fin)
}
