use crate::util::Ctx;
pub mod c01;
pub mod c03;
pub mod c04;
pub mod c05;
pub mod c06;
pub mod c07;
pub mod c12;
pub mod c13;
pub mod c14;
pub mod c15;
pub mod c16;
pub mod c17;
pub mod c18;
pub mod c19;
pub mod c20;
pub mod miri_entry;
pub mod sample_props;

pub fn dispatch(ctx: &Ctx) -> i32 {
    match ctx.id.as_str() {
        "C03" => c03::run(ctx),
        "C04" => c04::run(ctx),
        "C05" => c05::run(ctx),
        "C06" => c06::run(ctx),
        "C07" => c07::run(ctx),
        "C01" => c01::run(ctx),
        "C02" => sample_props::run(ctx, sample_props::Which::C02),
        "C08" => sample_props::run(ctx, sample_props::Which::C08),
        "C09" => sample_props::run(ctx, sample_props::Which::C09),
        "C10" => sample_props::run(ctx, sample_props::Which::C10),
        "C11" => sample_props::run(ctx, sample_props::Which::C11),
        "C12" => c12::run(ctx),
        "C13" => c13::run(ctx),
        "C14" => c14::run(ctx),
        "C15" => c15::run(ctx),
        "C16" => c16::run(ctx),
        "C17" => c17::run(ctx),
        "C18" => c18::run(ctx),
        "C19" => c19::run(ctx),
        "C20" => c20::run(ctx),
        other => {
            crate::util::out(&format!("unknown check {}", other));
            2
        }
    }
}
