use crate::util::Ctx;
pub mod c12;
pub mod c15;
pub mod c16;
pub mod c20;

pub fn dispatch(ctx: &Ctx) -> i32 {
    match ctx.id.as_str() {
        "C12" => c12::run(ctx),
        "C15" => c15::run(ctx),
        "C16" => c16::run(ctx),
        "C20" => c20::run(ctx),
        other => {
            crate::util::out(&format!("unknown check {}", other));
            2
        }
    }
}
