use crate::util::Ctx;
pub mod c20;

pub fn dispatch(ctx: &Ctx) -> i32 {
    match ctx.id.as_str() {
        "C20" => c20::run(ctx),
        other => {
            crate::util::out(&format!("unknown check {}", other));
            2
        }
    }
}
