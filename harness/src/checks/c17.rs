//! C17 — sampling is a pure function of its arguments.
//! Metamorphic monitors: history independence on one sampler object, 16 threads sharing a
//! sampler, separate processes, RNG entry point, settings combinations. The same workload is
//! the subject of the TSan and Miri runs of the thorough tier (see sanitize.sh).
use crate::checks::c18::{probe_points, result_bits};
use crate::gen::{self, GraphOpts, XiMode};
use crate::run::{DynSampler, GraphSpec, Outcome, Settings};
use crate::setup::Setup;
use crate::util::*;
use rand::Rng as _;
use serde_json::{json, Value};
use std::io::{Read, Write};
use std::process::{Command, Stdio};
use std::sync::atomic::{AtomicU64, Ordering};
use std::time::Instant;

fn digest_points(s: &DynSampler, masses: &[Option<f64>], shifts: &[Vec<f64>], pts: &[Vec<f64>]) -> Vec<u64> {
    pts.iter()
        .enumerate()
        .map(|(i, x)| {
            let st = Settings { stability: if i % 3 == 0 { Some(1e-6) } else { None }, debug: false, metadata: true };
            hash_u64s(&result_bits(&s.sample::<f64>(x, masses, shifts, &st)))
        })
        .collect()
}

/// child process: {graph, sig, masses, shifts, points} on stdin -> "<json hash> <digest...>"
pub fn child_main() -> i32 {
    install_panic_hook();
    let mut text = String::new();
    if std::io::stdin().read_to_string(&mut text).is_err() {
        return 2;
    }
    let Ok(v) = serde_json::from_str::<Value>(&text) else { return 2 };
    let Ok(g) = serde_json::from_value::<GraphSpec>(v["graph"].clone()) else { return 2 };
    let sig: Vec<Vec<isize>> = serde_json::from_value(v["sig"].clone()).unwrap_or_default();
    let masses: Vec<Option<f64>> = serde_json::from_value(v["masses"].clone()).unwrap_or_default();
    let shifts: Vec<Vec<f64>> = serde_json::from_value(v["shifts"].clone()).unwrap_or_default();
    let pts: Vec<Vec<f64>> = serde_json::from_value(v["points"].clone()).unwrap_or_default();
    let Some(s) = DynSampler::build(&g, &sig).ok() else { return 2 };
    // stdout of the child may be polluted by nothing here (debug is off)
    let d = digest_points(&s, &masses, &shifts, &pts);
    println!("{:016x} {}", hash_str(&s.json_string()), d.iter().map(|x| format!("{:016x}", x)).collect::<Vec<_>>().join(","));
    let _ = std::io::stdout().flush();
    0
}

fn run_child(su: &Setup, pts: &[Vec<f64>]) -> Option<String> {
    let exe = std::env::current_exe().ok()?;
    let payload = json!({"graph": su.g, "sig": su.sig, "masses": su.kin.masses, "shifts": su.kin.shifts, "points": pts});
    let mut child = Command::new(exe).arg("--child-probe").stdin(Stdio::piped()).stdout(Stdio::piped()).stderr(Stdio::null()).spawn().ok()?;
    child.stdin.take()?.write_all(serde_json::to_string(&payload).ok()?.as_bytes()).ok()?;
    let outp = child.wait_with_output().ok()?;
    if !outp.status.success() {
        return None;
    }
    Some(String::from_utf8_lossy(&outp.stdout).trim().to_string())
}

fn case(item: u64, rng: &mut Rng, acc: &mut Acc, quick: bool, light: bool) {
    let mut o = GraphOpts::std(if quick { 7 } else { 8 });
    o.max_loops = 4;
    o.big_loop_prob = 0.05;
    let Some(su) = Setup::random(rng, &o, 3, 8) else {
        acc.count("setup_failed");
        return;
    };
    let gkey = gen::graph_key(&su.g);
    acc.evals += 1;
    if su.g.ne() >= 2 {
        acc.distinct.insert(gkey);
    }
    let n_probe = if light { 6 } else { 24 };
    let pts = probe_points(rng, &su, n_probe);
    let masses = &su.kin.masses;
    let shifts = &su.kin.shifts;
    let json_before = su.sampler.json_string();
    let reference = digest_points(&su.sampler, masses, shifts, &pts);
    let mut fails: Vec<String> = vec![];

    // ---- 1. history: unrelated calls (other points, other kinematics, errors, panics) interleaved
    let n_hist = if light { 40 } else if quick { 600 } else { 5000 };
    let mut other_kin = su.kin.clone();
    for s in other_kin.shifts.iter_mut() {
        for c in s.iter_mut() {
            *c += 0.5;
        }
    }
    for h in 0..n_hist {
        match h % 5 {
            0 => {
                // short point: panics inside the library (caught)
                let x: Vec<f64> = (0..su.dim / 2).map(|_| rng.fo()).collect();
                let _ = su.sampler.sample::<f64>(&x, masses, shifts, &Settings::plain());
            }
            1 => {
                let x: Vec<f64> = (0..su.dim).map(|_| rng.fo()).collect();
                let _ = su.sampler.sample::<f64>(&x, &other_kin.masses, &other_kin.shifts, &Settings::full());
            }
            2 => {
                // extreme corner: matrix / gamma errors
                if let Some(x) = gen::xpoint(rng, &su.sec, su.dim, XiMode::Corner(300.0), None, true) {
                    let _ = su.sampler.sample::<f64>(&x, masses, shifts, &Settings { stability: Some(1e-12), debug: false, metadata: false });
                }
            }
            _ => {
                let mut r2 = Rng::new(rng.u64());
                let _ = su.sampler.sample_rng::<f64, _>(masses, shifts, &Settings::plain(), &mut r2);
            }
        }
        if h % 7 == 0 {
            let i = rng.below(pts.len());
            // the SAME point first with other edge data and other settings (a cache keyed on the
            // point alone, or on the previous call, would now serve a stale result)
            let _ = su.sampler.sample::<f64>(&pts[i], &other_kin.masses, &other_kin.shifts, &Settings { stability: None, debug: h % 14 == 0, metadata: h % 21 != 0 });
            if h % 3 == 0 {
                let mut shifted = pts[i].clone();
                let last = shifted.len() - 1;
                shifted[last] = rng.fo();
                let _ = su.sampler.sample::<f64>(&shifted, masses, shifts, &Settings::meta());
            }
            let st = Settings { stability: if i % 3 == 0 { Some(1e-6) } else { None }, debug: false, metadata: true };
            let d = hash_u64s(&result_bits(&su.sampler.sample::<f64>(&pts[i], masses, shifts, &st)));
            acc.count("history_probe_comparisons");
            if d != reference[i] {
                fails.push(format!("probe point {} gave a different result after {} earlier calls on the same sampler", i, h));
                break;
            }
        }
    }
    acc.add("history_calls", n_hist as u64);
    if su.sampler.json_string() != json_before {
        fails.push("the sampler's serialisation changed after sampling (sampler was modified)".into());
    }

    // ---- 2. threads sharing &sampler
    let n_threads = if light { 3 } else { 16 };
    let t0 = Instant::now();
    let intervals: std::sync::Mutex<Vec<(u64, u64, usize)>> = std::sync::Mutex::new(vec![]);
    let mismatches = AtomicU64::new(0);
    let seeds: Vec<u64> = (0..n_threads).map(|_| rng.u64()).collect();
    std::thread::scope(|sc| {
        for (t, sd) in seeds.iter().enumerate() {
            let (su, pts, reference, intervals, mismatches) = (&su, &pts, &reference, &intervals, &mismatches);
            let sd = *sd;
            sc.spawn(move || {
                let mut r = Rng::new(sd);
                let mut order: Vec<usize> = (0..pts.len()).collect();
                r.shuffle(&mut order);
                let mut local = vec![];
                for rep in 0..(if light { 1 } else { 3 }) {
                    for &i in &order {
                        if r.chance(0.3) {
                            std::thread::yield_now();
                        }
                        for _ in 0..r.below(200) {
                            std::hint::spin_loop();
                        }
                        let st = Settings { stability: if i % 3 == 0 { Some(1e-6) } else { None }, debug: false, metadata: true };
                        let a = t0.elapsed().as_nanos() as u64;
                        let res = su.sampler.sample::<f64>(&pts[i], &su.kin.masses, &su.kin.shifts, &st);
                        let b = t0.elapsed().as_nanos() as u64;
                        local.push((a, b, t));
                        if hash_u64s(&result_bits(&res)) != reference[i] {
                            mismatches.fetch_add(1, Ordering::Relaxed);
                        }
                        let _ = rep;
                    }
                }
                intervals.lock().unwrap().extend(local);
            });
        }
    });
    let iv = intervals.into_inner().unwrap();
    acc.add("threaded_calls", iv.len() as u64);
    // number of overlapping call pairs from different threads (sweep)
    let mut ev: Vec<(u64, i32, usize)> = vec![];
    for (a, b, t) in &iv {
        ev.push((*a, 1, *t));
        ev.push((*b, -1, *t));
    }
    ev.sort();
    let mut open = 0i64;
    let mut overlaps = 0u64;
    for (_, kind, _) in ev {
        if kind == 1 {
            overlaps += open as u64;
            open += 1;
        } else {
            open -= 1;
        }
    }
    acc.add("overlapping_call_pairs", overlaps);
    let mm = mismatches.load(Ordering::Relaxed);
    if mm > 0 {
        fails.push(format!("{} results computed concurrently on a shared sampler differ from the single-thread reference", mm));
    }

    // ---- 3. separate processes
    if !light && !cfg!(miri) {
        let n_proc = if quick { 2 } else { 4 };
        let mine = format!("{:016x} {}", hash_str(&json_before), reference.iter().map(|x| format!("{:016x}", x)).collect::<Vec<_>>().join(","));
        for _ in 0..n_proc {
            match run_child(&su, &pts) {
                Some(line) => {
                    acc.count("cross_process_comparisons");
                    if line != mine {
                        fails.push("a separately spawned process produced a different table or different sample bits".into());
                    }
                }
                None => acc.count("cross_process_step_inconclusive"),
            }
        }
    }

    // ---- 4. RNG entry point
    for k in 0..(if light { 2 } else { 10 }) {
        let seed = rng.u64();
        let mut counting = Rng::new(seed);
        let st = Settings { stability: None, debug: false, metadata: true };
        let a = su.sampler.sample_rng::<f64, _>(masses, shifts, &st, &mut counting);
        let mut replay = Rng::new(seed);
        let x: Vec<f64> = (0..su.dim).map(|_| replay.gen::<f64>()).collect();
        let b = su.sampler.sample::<f64>(&x, masses, shifts, &st);
        acc.count("rng_entry_comparisons");
        if counting.draws != su.dim as u64 {
            fails.push(format!("generate_sample_from_rng drew {} numbers, get_dimension() = {}", counting.draws, su.dim));
        }
        if result_bits(&a) != result_bits(&b) {
            fails.push(format!("generate_sample_from_rng and generate_sample_from_x_space_point disagree on the same numbers (trial {})", k));
        }
    }

    // ---- 5. settings combinations
    for x in pts.iter().take(if light { 2 } else { 8 }) {
        let mut outs = vec![];
        for (dbg, meta) in [(false, false), (false, true), (true, false), (true, true)] {
            let r = su.sampler.sample::<f64>(x, masses, shifts, &Settings { stability: None, debug: dbg, metadata: meta });
            let core: Vec<u64> = match &r.outcome {
                Outcome::Ok(o) => {
                    let mut v = vec![1, o.u.to_bits(), o.v.to_bits(), o.jacobian.to_bits(), o.u_trop.to_bits(), o.v_trop.to_bits()];
                    v.extend(o.k.iter().flatten().map(|c| c.to_bits()));
                    v
                }
                Outcome::Err(e) => vec![2, hash_str(e)],
                Outcome::Panic(_) => vec![3],
            };
            outs.push(core);
        }
        acc.count("settings_combination_groups");
        if outs.iter().any(|o| *o != outs[0]) {
            fails.push("return_metadata / print_debug_info changed the numerical result".into());
        }
    }
    if acc.samples.is_empty() {
        acc.sample(json!({"graph": su.g.describe(), "probe_points": pts.len(), "history_calls": n_hist, "threads": n_threads, "overlapping_call_pairs": overlaps}));
    }
    if !fails.is_empty() {
        let clause = if fails[0].contains("concurrently") {
            "threads"
        } else if fails[0].contains("process") {
            "processes"
        } else if fails[0].contains("rng") || fails[0].contains("drew") {
            "rng_entry"
        } else if fails[0].contains("return_metadata") {
            "settings"
        } else {
            "history"
        };
        acc.violate(item, clause, &format!("purity:{}", clause), json!({"config": su.describe(), "failures": fails}));
    }
}

pub fn run(ctx: &Ctx) -> i32 {
    let quick = ctx.quick();
    let light = std::env::var("VERIF_LIGHT").is_ok() || cfg!(miri);
    let n_items = if light { ctx.n(4, 4) } else { ctx.n(96, 1200) };
    // items run one after the other: each one uses all cores itself
    let mut seq = ctx.clone();
    seq.threads = if light { 1 } else { 2 };
    let acc = par_items(&seq, "C17", n_items, |item, rng, acc| case(item, rng, acc, quick, light));
    let overlaps = acc.get("overlapping_call_pairs");
    let mut fin = Finish::new(
        "per accepted graph: 24 probe points (sectors, corners, boundary-adjacent); (1) the same sampler object serves 600 (quick) / 5000 unrelated calls (other points, other kinematics, debug output, errors, caught panics, RNG entry) interleaved with the probes - results bit-identical to a fresh reference and the serialisation unchanged; \
         (2) 16 threads share &sampler, each evaluating the probes 3x in its own order with yields/spins - bit-identical to the single-thread reference; overlapping call pairs are counted; (3) 2-4 separately spawned processes reproduce table and sample bits; \
         (4) generate_sample_from_rng draws exactly get_dimension() numbers and equals generate_sample_from_x_space_point on them; (5) the four return_metadata x print_debug_info combinations agree. distinct = distinct graphs with E>=2",
    )
    .min(if light { 2 } else { 10 });
    if overlaps == 0 && !light {
        fin.inconclusive.push("no overlapping calls were observed in the threaded step".into());
        fin.min_evals = u64::MAX;
    }
    finish(ctx, acc, fin)
}
