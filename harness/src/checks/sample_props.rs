//! C02, C08, C09, C10, C11 — reference-model and metamorphic monitors on whole samples.
//! One exact evaluation (rational arithmetic at the logged Feynman parameters) serves all
//! five; each check drives its own workload and reports only its own clauses.
use crate::checks::c04::normalisation_oracle;
use crate::checks::c07::{point_modes, sectors_for};
use crate::gen::{self, GraphOpts, XiMode};
use crate::oracle::*;
use crate::run::{Outcome, SampleOut, Settings};
use crate::setup::{lnx, logged, Exact, Logged, Setup};
use crate::util::*;
use num::{Signed, Zero};
use serde_json::{json, Value};

#[derive(Clone, Copy, PartialEq, Debug)]
pub enum Which {
    C02,
    C08,
    C09,
    C10,
    C11,
}

const K: f64 = 256.0; // safety factor on every rounding bound

pub struct PointEval<'a> {
    pub su: &'a Setup,
    pub x: &'a [f64],
    pub out: &'a SampleOut<f64>,
    pub lg: &'a Logged,
    pub ex: Exact,
}

fn detail(su: &Setup, x: &[f64], extra: Value) -> Value {
    json!({"config": su.describe(), "x": fjv(x), "observed": extra})
}

/// returns None when the point is inconclusive (non-finite parameters, singular L, ...)
pub fn evaluate<'a>(su: &'a Setup, x: &'a [f64], out: &'a SampleOut<f64>, lg: &'a Logged, acc: &mut Acc) -> Option<PointEval<'a>> {
    let ex = match Exact::at(su, &lg.x) {
        Some(e) => e,
        None => {
            acc.count("skipped_nonfinite_parameters_or_singular_L");
            return None;
        }
    };
    if ex.v.is_zero() || !ex.det.is_positive() {
        acc.count("skipped_V_zero_or_detL_nonpositive");
        return None;
    }
    // oracle self-checks: matrix-tree theorem and the 2-forest formula, exactly
    let u_trees = su.sym.u_exact(&ex.x);
    if u_trees != ex.det {
        acc.count("harness_errors");
        acc.set("harness_error_messages", "oracle self-check failed: det L != sum over spanning trees".into());
        return None;
    }
    let f_forests = su.sym.f_exact(&ex.x);
    if f_forests != &ex.v * &ex.det {
        acc.count("harness_errors");
        acc.set("harness_error_messages", "oracle self-check failed: V*U != 2-forest formula (harness kinematics inconsistent)".into());
        return None;
    }
    acc.count("oracle_selfchecks_passed(matrix_tree+two_forest)");
    Some(PointEval { su, x, out, lg, ex })
}

// ------------------------------------------------------------------------------------ C08
fn check_c08(pe: &PointEval, item: u64, acc: &mut Acc) {
    let (su, ex, out) = (pe.su, &pe.ex, pe.out);
    let m = out.meta.as_ref().unwrap();
    let nl = su.loops;
    let ne = su.g.ne();
    let mut fails: Vec<String> = vec![];
    for i in 0..nl {
        for j in 0..nl {
            if m.l[i][j].to_bits() != m.l[j][i].to_bits() {
                fails.push(format!("L[{}][{}] and L[{}][{}] differ bitwise", i, j, j, i));
            }
            let maj: f64 = (0..ne).map(|e| (pe.lg.x[e] * (su.sig[e][i] * su.sig[e][j]) as f64).abs()).sum();
            let err = qf(&(q(m.l[i][j]) - &ex.l[i][j]).abs());
            let tol = 4.0 * ne as f64 * EPS * maj;
            if !(err <= tol) {
                fails.push(format!("L[{}][{}] = {:e}, exact {:e}", i, j, m.l[i][j], qf(&ex.l[i][j])));
            }
        }
    }
    acc.count("L_matrices_checked");
    let bu = ex.bound_u(K);
    if !(bu <= 1e-3) {
        acc.count("skipped_ill_conditioned");
    } else {
        let rel = qf(&((q(out.u) - &ex.det).abs() / &ex.det));
        acc.max("u_error_over_bound", rel / bu);
        acc.count("u_checked");
        if !(rel <= bu) {
            fails.push(format!("u = {:e}, sum over spanning trees = {:e} (rel {:e}, bound {:e}, kappa_F {:e})", out.u, qf(&ex.det), rel, bu, ex.kappa));
        }
    }
    acc.set("kappa_decades", format!("1e{:02}", ex.kappa.log10().max(0.0).floor() as i64));
    if !fails.is_empty() {
        let clause = if fails[0].starts_with("L[") { "l_matrix" } else { "u_vs_spanning_trees" };
        acc.violate(item, clause, &format!("symanzik_u:{}", clause), detail(su, pe.x, json!({"rescaled": fjv(&pe.lg.x), "failures": fails})));
    }
}

// ------------------------------------------------------------------------------------ C09
fn check_c09(pe: &PointEval, item: u64, acc: &mut Acc) {
    let (su, ex, out) = (pe.su, &pe.ex, pe.out);
    let m = out.meta.as_ref().unwrap();
    let ne = su.g.ne();
    let mut fails: Vec<String> = vec![];
    // u vectors
    for l in 0..su.loops {
        for k in 0..su.g.d {
            let err = qf(&(q(m.u_vectors[l][k]) - &ex.uvec[l][k]).abs());
            let tol = 4.0 * (ne + 1) as f64 * EPS * qf(&ex.uvec_abs[l][k]);
            if !(err <= tol) {
                fails.push(format!("u_vectors[{}][{}] = {:e}, exact {:e}", l, k, m.u_vectors[l][k], qf(&ex.uvec[l][k])));
            }
        }
    }
    acc.count("u_vectors_checked");
    let bv = ex.bound_v(K);
    let bu = ex.bound_u(K);
    acc.set("cond_V_decades", format!("1e{:02}", ex.cond_v.log10().max(0.0).floor() as i64));
    if !(bv + bu <= 1e-3) {
        acc.count("skipped_ill_conditioned");
    } else {
        let f = &ex.v * &ex.det;
        let vu = q(out.v) * q(out.u);
        let rel = qf(&((&vu - &f).abs() / f.abs()));
        acc.max("vu_error_over_bound", rel / (bv + bu));
        acc.count("vu_checked");
        if !(rel <= bv + bu) {
            fails.push(format!("v*u = {:e}, second Symanzik polynomial F = {:e} (rel {:e}, bound {:e}; v {:e} exact V {:e})", out.v * out.u, qf(&f), rel, bv + bu, out.v, qf(&ex.v)));
        }
    }
    if !fails.is_empty() {
        let clause = if fails[0].starts_with("u_vectors") { "u_vectors" } else { "v_times_u_vs_F" };
        acc.violate(item, clause, &format!("symanzik_f:{}", clause), detail(su, pe.x, json!({"rescaled": fjv(&pe.lg.x), "failures": fails})));
    }
}

// ------------------------------------------------------------------------------------ C10
fn check_c10(pe: &PointEval, item: u64, acc: &mut Acc) {
    let (su, ex, out) = (pe.su, &pe.ex, pe.out);
    let m = out.meta.as_ref().unwrap();
    let nl = su.loops;
    let d = su.g.d;
    let ne = su.g.ne();
    let mut fails: Vec<String> = vec![];
    acc.set("D_L_pairs", format!("D{}L{}", d, nl));
    if !(m.lambda.is_finite() && m.lambda > 0.0) || m.q.iter().flatten().any(|v| !v.is_finite()) || out.k.iter().flatten().any(|v| !v.is_finite()) {
        acc.count("skipped_nonfinite_lambda_q_or_k");
        return;
    }
    let bv = ex.bound_v(K);
    let kap = 1.0 + ex.kappa;
    // (b) shift = L^-1 u
    // scale-safe Euclidean norm of the majorant (squares of 1e-190 underflow)
    let umax = ex.uvec_abs.iter().flatten().map(qf).fold(0.0f64, f64::max);
    let unorm_scaled: f64 = if umax > 0.0 { ex.uvec_abs.iter().flatten().map(|c| (qf(c) / umax) * (qf(c) / umax)).sum::<f64>().sqrt() } else { 0.0 };
    let tol_shift = K * nl as f64 * EPS * kap * (ex.inv_frob * umax) * unorm_scaled + 1e-290;
    for l in 0..nl {
        for k in 0..d {
            let err = qf(&(q(m.shift[l][k]) - &ex.shift[l][k]).abs());
            if tol_shift.is_finite() && !(err <= tol_shift) && K * nl as f64 * EPS * kap <= 1e-3 {
                fails.push(format!("shift[{}][{}] = {:e}, exact (L^-1 u) = {:e} (err {:e}, tol {:e})", l, k, m.shift[l][k], qf(&ex.shift[l][k]), err, tol_shift));
            }
        }
    }
    acc.count("shift_checked");
    // (a) sum_e x_e (|q_e|^2 + m_e^2) at the returned momenta = v (1 + |q|^2 / (2 lambda))
    let kq: Vec<Vec<Q>> = out.k.iter().map(|v| v.iter().map(|c| q(*c)).collect()).collect();
    let mut s = Q::zero();
    for e in 0..ne {
        let mass = su.kin.masses[e].unwrap_or(0.0);
        let mut t = q(mass) * q(mass);
        for k in 0..d {
            let mut qe = q(su.kin.shifts[e][k]);
            for l in 0..nl {
                if su.sig[e][l] != 0 {
                    qe += qi(su.sig[e][l] as i64) * &kq[l][k];
                }
            }
            t += &qe * &qe;
        }
        s += &ex.x[e] * t;
    }
    let q2: f64 = m.q.iter().flatten().map(|c| c * c).sum();
    let rhs = q(out.v) * (qi(1) + q(q2) / (qi(2) * q(m.lambda)));
    let w = out.v * q2 / (2.0 * m.lambda);
    let tol_abs = K * EPS * (kap.powf(1.5) * (w.abs() + ex.bmaj) + qf(&ex.a));
    let sf = qf(&s);
    if !(tol_abs / sf.abs() <= 1e-3) || !(bv <= 1e-3) {
        acc.count("skipped_ill_conditioned");
    } else {
        let err = qf(&(&s - &rhs).abs());
        let tol = tol_abs + bv * qf(&rhs.abs()) + 1e-290;
        acc.max("quadratic_form_error_over_tol", err / tol);
        acc.count("quadratic_form_checked");
        if !(err <= tol) {
            fails.push(format!("sum_e x_e(|q_e|^2+m_e^2) at the returned momenta = {:e}, v(1+|q|^2/2lambda) = {:e} (err {:e}, tol {:e})", sf, qf(&rhs), err, tol));
        }
        // (c) Q^T (k + L^-1 u) = sqrt(v / 2 lambda) q, with the returned factor verified to be
        // the Cholesky factor of L (unique): upper triangular, positive diagonal, QQ^T = L
        let qt = qm_from_f64(&m.qt);
        let mut chol_ok = true;
        for i in 0..nl {
            if !(m.qt[i][i] > 0.0) {
                chol_ok = false;
            }
            for j in 0..i {
                if m.qt[i][j] != 0.0 {
                    chol_ok = false;
                }
            }
        }
        let rec = qm_mul(&qm_transpose(&qt), &qt);
        let mut dif = rec.clone();
        for i in 0..nl {
            for j in 0..nl {
                dif[i][j] -= &ex.l[i][j];
            }
        }
        let rr = frob_f64(&dif) / (K * nl as f64 * EPS * frob_f64(&ex.l));
        if !(rr <= 1.0) {
            chol_ok = false;
        }
        if !chol_ok {
            fails.push(format!("q_transposed is not the upper-triangular Cholesky factor of L (||Q Q^T - L||/bound = {:e})", rr));
        } else {
            let pref = (out.v / (2.0 * m.lambda)).sqrt();
            for l in 0..nl {
                for k in 0..d {
                    let mut lhs = Q::zero();
                    let mut scale = 0.0;
                    for lp in 0..nl {
                        let y = &kq[lp][k] + &ex.shift[lp][k];
                        // magnitude of the terms that were summed (and partly cancelled) to form k and the shift
                        let mut kmaj = out.k[lp][k].abs() + qf(&ex.shift[lp][k].abs());
                        for l2 in 0..nl {
                            kmaj += pref * m.qt_inv[lp][l2].abs() * m.q[l2][k].abs() + m.inv[lp][l2].abs() * qf(&ex.uvec_abs[l2][k]);
                        }
                        scale += m.qt[l][lp].abs() * kmaj;
                        lhs += &qt[l][lp] * y;
                    }
                    let rhs = pref * m.q[l][k];
                    // (absolute floor: subnormal values carry an absolute, not a relative, rounding error)
                    let tol = K * EPS * kap * scale + (bv + 8.0 * EPS) * rhs.abs() + K * EPS * kap.sqrt() * rhs.abs() + 1e-290;
                    let err = (qf(&lhs) - rhs).abs();
                    if std::env::var("C10_DEBUG").is_ok() && !(err <= tol) {
                        eprintln!("l={} k={} lhs={:e} rhs={:e} err={:e} tol={:e} scale={:e} kap={:e} bv={:e} pref={:e} q={:e} kcomp={:e} shift_exact={:e} shift_code={:e} qt={:?} lambda={:e} v={:e} Vexact={:e} u_vec={:?} inv={:?}", l, k, qf(&lhs), rhs, err, tol, scale, kap, bv, pref, m.q[l][k], out.k[l][k], qf(&ex.shift[l][k]), m.shift[l][k], m.qt[l], m.lambda, out.v, qf(&ex.v), m.u_vectors.iter().map(|v| v[k]).collect::<Vec<_>>(), m.inv[l]);
                    }
                    acc.max("gaussian_map_error_over_tol", err / tol);
                    if !(err <= tol) {
                        fails.push(format!("[Q^T(k+L^-1u)]_{},{} = {:e}, sqrt(v/2lambda) q = {:e} (err {:e}, tol {:e})", l, k, qf(&lhs), rhs, err, tol));
                    }
                }
            }
            acc.count("gaussian_map_checked");
        }
    }
    if !fails.is_empty() {
        let clause = if fails[0].starts_with("shift") {
            "shift"
        } else if fails[0].starts_with("sum_e") {
            "quadratic_form"
        } else {
            "gaussian_map"
        };
        acc.violate(
            item,
            clause,
            &format!("momenta:{}", clause),
            detail(su, pe.x, json!({"rescaled": fjv(&pe.lg.x), "lambda": fj(m.lambda), "v": fj(out.v), "q": m.q, "k": out.k, "failures": fails})),
        );
    }
}

// ------------------------------------------------------------------------------------ C11
fn check_c11(pe: &PointEval, item: u64, acc: &mut Acc) {
    let (su, ex, out) = (pe.su, &pe.ex, pe.out);
    let d_half = su.g.d as f64 / 2.0;
    let mut fails: Vec<String> = vec![];
    if out.u_trop != 1.0 || out.v_trop != 1.0 {
        fails.push(format!("returned u_trop = {:e}, v_trop = {:e}; both must be exactly 1", out.u_trop, out.v_trop));
    }
    acc.set("D_values", format!("{}", su.g.d));
    // formula on the returned u and v
    let cf = su.norm;
    let want = (1.0 / out.u).powf(d_half) * (1.0 / out.v).powf(su.omega) * cf;
    if want.is_finite() && out.jacobian.is_finite() && want != 0.0 {
        let rel = ((out.jacobian - want) / want).abs();
        let mut tol = 64.0 * EPS * (1.0 + d_half * out.u.ln().abs() + su.omega * out.v.ln().abs());
        if !tol.is_finite() {
            // u or v not positive: the logarithms are undefined; bit-level agreement is still required
            tol = 64.0 * EPS;
        }
        acc.max("formula_error_over_tol", rel / tol);
        acc.count("formula_on_returned_values_checked");
        if !(rel <= tol) {
            fails.push(format!("jacobian = {:e}, (1/u)^(D/2)(1/v)^dod * normalisation = {:e} (rel {:e})", out.jacobian, want, rel));
        }
    } else {
        acc.count("skipped_nonfinite_jacobian");
    }
    // gauge invariance: the same value from the UNRESCALED parameters with the oracle's normalisation
    let bu = ex.bound_u(K);
    let bv = ex.bound_v(K);
    let budget = d_half * bu + su.omega * bv;
    if !(budget <= 1e-3) || su.single_external {
        acc.count("skipped_ill_conditioned_or_single_external");
    } else if pe.lg.x_unscaled.iter().all(|v| *v >= f64::MIN_POSITIVE) {
        if let Some(ex0) = Exact::at(su, &pe.lg.x_unscaled) {
            let lx = lnx(&pe.lg.x_unscaled);
            let ln_ut = su.sym.ln_u_trop(&lx);
            let ln_ft = su.sym.ln_f_trop_generic(&lx);
            if ln_ft.is_finite() && ex0.v.is_positive() && ex0.det.is_positive() {
                let go = GO::new(&su.g);
                let jfull = qf(&su.sec.j[(1usize << su.g.ne()) - 1]);
                let n = normalisation_oracle(&su.g, jfull, su.omega, su.loops);
                let _ = go;
                let ln_u = ln_q(&ex0.det);
                let ln_v = ln_q(&ex0.v);
                let ln_want = n.ln() + d_half * (ln_ut - ln_u) + su.omega * ((ln_ft - ln_ut) - ln_v);
                let ln_target = -d_half * ln_ut - su.omega * (ln_ft - ln_ut);
                acc.max("ln_rescaling_target_max", ln_target);
                if ln_target > 345.0 {
                    acc.count("points_with_rescaling_target_above_1e150");
                }
                let sumabs: f64 = lx.iter().map(|v| v.abs()).sum();
                let tol = budget + 64.0 * EPS * (1.0 + su.omega + su.g.d as f64) * (1.0 + sumabs + ln_u.abs() + ln_v.abs()) + 1e-11;
                let err = (out.jacobian.ln() - ln_want).abs();
                // the factors as they come out of a correct rescaling: u = U/U_tr, v = V/V_tr
                let f1 = d_half * (ln_u - ln_ut);
                let f2 = su.omega * (ln_v - (ln_ft - ln_ut));
                if ln_want > -600.0 && ln_want < 600.0 && !(f1.abs() < 650.0 && f2.abs() < 650.0) {
                    // a factor of the library's formula leaves the normal range although the product
                    // does not: the product is then only as accurate as a subnormal intermediate
                    acc.count("gauge_invariance_skipped_factor_outside_f64_range");
                } else if !(ln_want > -600.0 && ln_want < 600.0) {
                    // the exact weight is not a normal f64: only its order of magnitude can be compared
                    acc.count("gauge_invariance_weight_outside_f64_range");
                    if (ln_want <= -600.0 && out.jacobian.abs() > 1e-200) || (ln_want >= 600.0 && out.jacobian.abs() < 1e200) {
                        fails.push(format!("ln jacobian = {:e} although the exact value has ln = {:e}", out.jacobian.ln(), ln_want));
                    }
                } else {
                acc.max("gauge_invariance_error_over_tol", err / tol);
                acc.count("gauge_invariance_checked");
                if !(err <= tol) {
                    fails.push(format!(
                        "ln jacobian = {:e}; from the unrescaled parameters: ln[N (U_tr/U)^(D/2) (V_tr/V)^dod] = {:e} (diff {:e}, tol {:e})",
                        out.jacobian.ln(),
                        ln_want,
                        err,
                        tol
                    ));
                }
                }
            }
        }
    }
    if !fails.is_empty() {
        let clause = if fails[0].starts_with("returned u_trop") {
            "trop_not_one"
        } else if fails[0].starts_with("jacobian =") {
            "formula"
        } else {
            "gauge_invariance"
        };
        acc.violate(
            item,
            clause,
            &format!("jacobian:{}", clause),
            detail(su, pe.x, json!({"u": fj(out.u), "v": fj(out.v), "jacobian": fj(out.jacobian), "cached_factor": fj(cf), "unrescaled": fjv(&pe.lg.x_unscaled), "rescaled": fjv(&pe.lg.x), "failures": fails})),
        );
    }
}

/// natural log of a positive rational of any magnitude
pub fn ln_q(x: &Q) -> f64 {
    let f = qf(x);
    if f.is_finite() && f > 1e-300 {
        return f.ln();
    }
    // scale by powers of two
    let n = x.numer().bits() as f64;
    let d = x.denom().bits() as f64;
    let shift = (n - d) as i64;
    let scaled = if shift >= 0 { x / q(2f64.powi(shift.min(1000) as i32)) } else { x * q(2f64.powi((-shift).min(1000) as i32)) };
    let sf = qf(&scaled);
    if shift.abs() <= 1000 && sf.is_finite() && sf > 0.0 {
        sf.ln() + shift as f64 * std::f64::consts::LN_2
    } else {
        (n - d) * std::f64::consts::LN_2
    }
}

// ------------------------------------------------------------------------------------ C02
fn check_c02(pe: &PointEval, item: u64, acc: &mut Acc) {
    let (su, ex, out) = (pe.su, &pe.ex, pe.out);
    if su.single_external {
        acc.count("skipped_single_external");
        return;
    }
    acc.set("cancellation_ratio_decades", format!("1e{:02}", ex.cancel_ratio.log10().max(0.0).floor() as i64));
    // Domain of the property: exact cancellation ratio of V = A - B at most 1e8. (V as a function
    // of the Feynman parameters is perfectly conditioned; digits are lost only in the subtraction.)
    if !(ex.cancel_ratio <= 1e8) {
        acc.count("skipped_outside_domain(cancellation_ratio>1e8)");
        return;
    }
    // The bounds are inequalities with O(1) room: each clause is evaluated whenever the rigorous
    // rounding bound of the quantity it uses stays below 5%, and its slack is widened by that bound.
    let bu = ex.bound_u(K);
    let bvv = ex.bound_v(K);
    let u_ok = bu <= 0.05;
    let v_ok = u_ok && bvv <= 0.05;
    if !u_ok {
        acc.count("skipped_rounding_bound_of_u_above_5%");
        return;
    }
    if !v_ok {
        acc.count("v_and_ratio_clauses_skipped(rounding_bound_of_v_above_5%)");
    }
    acc.set("kappa_decades", format!("1e{:02}", ex.kappa.log10().max(0.0).floor() as i64));
    if pe.lg.x.iter().any(|v| !(*v >= f64::MIN_POSITIVE)) {
        acc.count("skipped_subnormal_parameters");
        return;
    }
    let Some(cmin) = su.sym.c_min() else {
        acc.count("skipped_F_identically_zero");
        return;
    };
    let csum = su.sym.c_sum();
    let nt = su.sym.n_trees as f64;
    let lx = lnx(&pe.lg.x);
    let ln_ut = su.sym.ln_u_trop(&lx);
    let ln_ft = su.sym.ln_f_trop_actual(&lx);
    let ln_vt = ln_ft - ln_ut;
    let slack = 1e-3 + 2.0 * bu + if v_ok { 2.0 * bvv } else { 0.0 };
    let d_half = su.g.d as f64 / 2.0;
    let mut fails: Vec<String> = vec![];
    let (lu, lv) = (out.u.ln(), out.v.ln());
    if !(lu >= ln_ut - slack && lu <= ln_ut + nt.ln() + slack) {
        fails.push(format!("u = {:e} outside [U_tr, N_T U_tr] = [{:e}, {:e}] (N_T = {})", out.u, ln_ut.exp(), (ln_ut + nt.ln()).exp(), nt));
    }
    let ln_cmin = ln_q(&cmin);
    let ln_csum = ln_q(&csum);
    if v_ok && !(lv >= ln_vt + ln_cmin - nt.ln() - slack && lv <= ln_vt + ln_csum + slack) {
        fails.push(format!(
            "v = {:e} outside [(c_min/N_T) V_tr, C_sum V_tr] = [{:e}, {:e}] (V_tr {:e}, c_min {:e}, C_sum {:e})",
            out.v,
            (ln_vt + ln_cmin - nt.ln()).exp(),
            (ln_vt + ln_csum).exp(),
            ln_vt.exp(),
            qf(&cmin),
            qf(&csum)
        ));
    }
    let ratio_ln = out.jacobian.ln() - su.norm.ln();
    let lo = -d_half * nt.ln() - su.omega * ln_csum;
    let hi = su.omega * (nt.ln() - ln_cmin);
    let s2 = slack * (1.0 + d_half + su.omega);
    let jac_ln_abs_lo = lo + su.norm.ln();
    let jac_ln_abs_hi = hi + su.norm.ln();
    if (out.jacobian.abs() < 1e-290 && jac_ln_abs_lo < -660.0) || (out.jacobian.is_infinite() && jac_ln_abs_hi > 700.0) {
        // the a-priori interval itself leaves the range of f64: an underflowed / overflowed weight
        // is a correct rounding of a value this clause cannot pin down
        acc.count("weight_bounds_skipped_interval_leaves_f64_range");
    } else if v_ok && !(ratio_ln >= lo - s2 && ratio_ln <= hi + s2) {
        fails.push(format!("ln(jacobian/normalisation) = {:e} outside [{:e}, {:e}]", ratio_ln, lo, hi));
    }
    // how far inside the interval (coverage: proximity to the bounds)
    if v_ok && hi - lo > 1e-6 {
        // position inside the a-priori interval: 0 = lower end, 1 = upper end
        acc.max("weight_interval_position_max", (ratio_ln - lo) / (hi - lo));
        acc.max("weight_interval_position_min_negated", -((ratio_ln - lo) / (hi - lo)));
    }
    let spread = lx.iter().cloned().fold(f64::NEG_INFINITY, f64::max) - lx.iter().cloned().fold(f64::INFINITY, f64::min);
    acc.set("parameter_spread_decades", format!("1e{:02}", (spread / std::f64::consts::LN_10).floor() as i64));
    acc.count(if v_ok { "all_bounds_checked" } else { "u_bounds_checked_only" });
    if !fails.is_empty() && std::env::var("C02_DEBUG").is_ok() {
        eprintln!("kappa={:e} bu={:e} bv={:e} cancel={:e} exactU={:e} u={:e} ln_ut={:e}", ex.kappa, bu, bvv, ex.cancel_ratio, qf(&ex.det), out.u, ln_ut);
    }
    if !fails.is_empty() {
        acc.violate(
            item,
            "bounds",
            "bounds:weights",
            detail(su, pe.x, json!({"rescaled": fjv(&pe.lg.x), "u": fj(out.u), "v": fj(out.v), "jacobian": fj(out.jacobian), "N_T": nt, "cond_V": ex.cond_v, "failures": fails})),
        );
    }
}

// ------------------------------------------------------------------------------------ driver
fn one_point(su: &Setup, x: &[f64], which: Which, item: u64, acc: &mut Acc) -> Option<(f64, f64, f64, f64, f64)> {
    let run = su.sample(x, &Settings::full());
    acc.evals += 1;
    match &run.outcome {
        Outcome::Panic(p) => {
            // every coordinate is inside (0,1) and the kinematics is legal: a panic means the
            // quantities this property speaks about were not returned at all
            acc.count("sample_panic");
            acc.violate(item, "panic_at_legal_point", "sample:panic", detail(su, x, json!({"panic": p})));
            return None;
        }
        Outcome::Err(e) => {
            acc.count(&format!("sample_{}", e));
            // a MatrixError at a point whose exactly evaluated L is harmless is not a legitimate
            // refusal (the debug log still carries the Feynman parameters)
            if e.starts_with("MatrixError") {
                if let Some(lg) = logged(&run) {
                    if lg.x.iter().all(|v| v.is_finite() && *v > 1e-100 && *v < 1e100) {
                        if let Some(ex) = Exact::at(su, &lg.x) {
                            if ex.kappa <= 1e6 && ex.det.is_positive() {
                                acc.violate(item, "matrix_error_at_well_conditioned_point", "sample:matrix_error_well_conditioned", detail(su, x, json!({"error": e, "rescaled": fjv(&lg.x), "kappa_F": ex.kappa})));
                            }
                        }
                    }
                }
            }
            return None;
        }
        Outcome::Ok(_) => {}
    }
    let out = run.outcome.ok().unwrap();
    let lg = logged(&run)?;
    let pe = evaluate(su, x, out, &lg, acc)?;
    match which {
        Which::C02 => check_c02(&pe, item, acc),
        Which::C08 => check_c08(&pe, item, acc),
        Which::C09 => check_c09(&pe, item, acc),
        Which::C10 => check_c10(&pe, item, acc),
        Which::C11 => check_c11(&pe, item, acc),
    }
    Some((out.u, out.v, out.jacobian, pe.ex.bound_u(K), pe.ex.bound_v(K)))
}

fn graph_case(item: u64, rng: &mut Rng, acc: &mut Acc, which: Which, quick: bool) {
    let mut o = GraphOpts::std(if quick { 6 } else { 8 });
    if which != Which::C02 {
        o.big_loop_prob = 0.04;
    }
    match which {
        Which::C08 | Which::C10 => {
            o.named_prob = 0.4;
        }
        Which::C11 => {
            o.allow_single_external = false;
            // large dod next to light massless lines: the rescaling target reaches 1e150 and more
            o.heavy_massive_prob = 0.3;
        }
        Which::C02 => o.disconnected_prob = 0.15,
        _ => {}
    }
    let mix = if which == Which::C08 || which == Which::C09 { 4 } else { 2 };
    let max_off = if which == Which::C09 || which == Which::C10 { 16 } else { 4 };
    let Some(su) = Setup::random(rng, &o, mix, max_off) else {
        acc.count("setup_failed");
        return;
    };
    let ne = su.g.ne();
    let gkey = gen::graph_key(&su.g);
    acc.count("graphs");
    acc.set("graph_classes", su.name.split(':').next().unwrap_or("").split('(').next().unwrap_or("").to_string());
    acc.set("loops", format!("{}", su.loops));
    // many-loop graphs (exact 7x7 - 9x9 rational algebra per point) keep the quick budget
    let n_sectors = if quick || su.loops >= 7 { 12 } else { 60 };
    let orders = if which == Which::C02 { sectors_for(rng, ne, n_sectors * 2) } else { sectors_for(rng, ne.max(5), n_sectors) };
    let orders: Vec<Vec<usize>> = orders.into_iter().filter(|o| o.len() == ne).collect();
    let orders = if orders.is_empty() { (0..n_sectors).map(|_| gen::random_order(rng, ne)).collect() } else { orders };
    // alternative routings for the metamorphic clauses
    let alts: Vec<Setup> = if which == Which::C08 || which == Which::C09 {
        (0..3).filter_map(|_| su.reroute(rng, 4, if which == Which::C09 { 16 } else { 0 }, which == Which::C09)).collect()
    } else {
        vec![]
    };
    let pts_per_sector = if which == Which::C02 { 3 } else { 2 };
    for ord in &orders {
        for pi in 0..pts_per_sector {
            let mode = if which == Which::C02 {
                // escalate towards the corners
                [XiMode::Corner(2.0), XiMode::Corner(5.0), XiMode::Corner(if quick { 8.0 } else { 12.0 })][pi % 3]
            } else {
                point_modes(rng, quick)
            };
            let Some(x) = gen::xpoint(rng, &su.sec, su.dim, mode, Some(ord), which == Which::C10) else {
                acc.count("sector_unreachable_in_f64");
                continue;
            };
            let base = one_point(&su, &x, which, item, acc);
            if ne >= 2 {
                let mut key = vec![gkey];
                key.extend(x.iter().map(|v| v.to_bits()));
                acc.distinct.insert(hash_u64s(&key));
            }
            acc.set("sectors_visited", format!("{:016x}:{:?}", gkey, ord));
            // metamorphic: same x-space point under other routings
            if let Some((u0, v0, j0, bu0, bv0)) = base {
                for alt in &alts {
                    let Some((u1, v1, j1, bu1, bv1)) = one_point(alt, &x, which, item, acc) else { continue };
                    let tu = bu0 + bu1 + 8.0 * EPS;
                    let tv = bv0 + bv1 + 8.0 * EPS;
                    if !(tu <= 1e-3) || !(tv <= 1e-3) {
                        acc.count("metamorphic_skipped_ill_conditioned");
                        continue;
                    }
                    acc.count("metamorphic_routing_pairs");
                    let du = ((u1 - u0) / u0).abs();
                    let dv = ((v1 - v0) / v0).abs();
                    // weights that underflow (or overflow) identically under both routings agree
                    let dj = if j0 == j1 || (j0.abs() < 1e-290 && j1.abs() < 1e-290) {
                        if j0.abs() < 1e-290 {
                            acc.count("metamorphic_pairs_with_underflowed_weight");
                        }
                        0.0
                    } else {
                        ((j1 - j0) / j0).abs()
                    };
                    let tj = su.g.d as f64 / 2.0 * tu + su.omega * tv + 64.0 * EPS * (1.0 + su.omega * v0.ln().abs() + su.g.d as f64 * u0.ln().abs());
                    let bad = if which == Which::C08 { !(du <= tu) } else { !(du <= tu) || !(dv <= tv) || !(dj <= tj) };
                    if bad {
                        acc.violate(
                            item,
                            "routing_dependence",
                            if which == Which::C08 { "symanzik_u:routing_dependence" } else { "symanzik_f:routing_dependence" },
                            json!({"config_a": su.describe(), "config_b": alt.describe(), "x": fjv(&x), "u": [fj(u0), fj(u1)], "v": [fj(v0), fj(v1)], "jacobian": [fj(j0), fj(j1)],
                                   "rel_diff": [du, dv, dj], "tolerance": [tu, tv, tj]}),
                        );
                    }
                }
            }
        }
    }
    if acc.samples.is_empty() {
        acc.sample(json!({"config": su.describe(), "loops": su.loops, "sectors": orders.len()}));
    }
}

pub fn run(ctx: &Ctx, which: Which) -> i32 {
    let quick = ctx.quick();
    let n_items = ctx.n(200, 4000);
    let tag = format!("{:?}", which);
    let acc = par_items(ctx, &tag, n_items, |item, rng, acc| graph_case(item, rng, acc, which, quick));
    let common = "accepted connected graphs (1-5 loops, E<=6 quick / 8 thorough, named families and random ear/tree constructions, D=1..6, all mass patterns, 0 or >=2 generic external momenta in multiples of 1/8, random unimodular routings, loop-momentum offsets); x-points per sector (all sectors for small E) with uniform, benign and corner xi; \
                  exact rational evaluation at the logged rescaled Feynman parameters, oracle self-checked on every point by the matrix-tree theorem (det L == sum over spanning trees) and the 2-forest formula (V*U == F) in exact arithmetic; bounds K*eps*condition with K=256, points whose bound exceeds 1e-3 are counted as skipped. distinct = distinct (graph, x-point)";
    let specific = match which {
        Which::C02 => "C02: U_tr<=u<=N_T U_tr, (c_min/N_T) V_tr<=v<=C_sum V_tr, jacobian/normalisation inside its graph-only interval, at corner points escalating until cond_V reaches 1e8",
        Which::C08 => "C08: L entries (bitwise symmetric, 4E eps), u vs sum over spanning trees; the same x under 3 further routings",
        Which::C09 => "C09: u_vectors, v*u vs exact F; the same x under 3 further routings with edge-orientation flips and offsets up to 2: u, v, jacobian agree",
        Which::C10 => "C10: shift vs exact L^-1 u; quadratic form at the returned momenta vs v(1+|q|^2/2lambda); Q^T(k+L^-1u) = sqrt(v/2lambda) q with the returned factor verified to be the Cholesky factor",
        Which::C11 => "C11: returned u_trop=v_trop=1 exactly; jacobian vs formula on returned u,v; vs N (U_tr/U)^(D/2)(V_tr/V)^dod at the UNRESCALED parameters with the oracle's own normalisation",
    };
    let fin = Finish::new(&format!("{} || {}", specific, common)).min(500);
    finish(ctx, acc, fin)
}
