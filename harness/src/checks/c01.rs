//! C01 — Monte Carlo estimator is unbiased: mean weight equals the Feynman integral.
//! Aggregate (statistical) monitor: batch-means estimator of the hypercube average of
//! jacobian * g(loop momenta) against independently known closed-form integrals, with a
//! sequential decision rule and a fixed false-alarm budget.
use crate::gen::{self, Kin};
use crate::oracle::*;
use crate::run::{GraphSpec, Outcome, Settings};
use crate::scalar::DD;
use crate::setup::Setup;
use crate::special::ln_gamma;
use crate::util::*;
use rand::Rng as _;
use serde_json::{json, Value};
use std::f64::consts::PI;
use std::sync::Mutex;

pub struct Config {
    pub label: String,
    pub su: Setup,
    /// exponent of the bounded test function on each edge (0 = none)
    pub delta: Vec<f64>,
    pub exact: f64,
    /// a-priori interval of ln(jacobian/normalisation) from C02, if available
    pub weight_interval: Option<(f64, f64)>,
    /// upper bound of the test function
    pub g_max: f64,
    pub min_sub_omega: f64,
}

fn lng(x: f64) -> f64 {
    ln_gamma(x)
}

/// ln of pi^(D/2) Gamma(w-D/2)/Gamma(w) (m^2)^(D/2-w)
fn ln_tadpole(d: f64, w: f64, m: f64) -> f64 {
    d / 2.0 * PI.ln() + lng(w - d / 2.0) - lng(w) + (d / 2.0 - w) * (m * m).ln()
}
/// ln G(a,b) for the massless bubble
fn ln_g(d: f64, a: f64, b: f64) -> f64 {
    lng(d / 2.0 - a) + lng(d / 2.0 - b) + lng(a + b - d / 2.0) - lng(a) - lng(b) - lng(d - a - b)
}

fn d8(rng: &mut Rng, lo: f64, hi: f64) -> f64 {
    // multiples of 1/64 in [lo,hi]
    let k = rng.int((lo * 64.0).ceil() as i64, (hi * 64.0).floor() as i64);
    k as f64 / 64.0
}

fn weight_interval(su: &Setup) -> Option<(f64, f64)> {
    let cmin = su.sym.c_min()?;
    let csum = su.sym.c_sum();
    let nt = su.sym.n_trees as f64;
    let dh = su.g.d as f64 / 2.0;
    let lo = -dh * nt.ln() - su.omega * crate::checks::sample_props::ln_q(&csum);
    let hi = su.omega * (nt.ln() - crate::checks::sample_props::ln_q(&cmin));
    Some((lo, hi))
}

/// Deterministic catalogue of configurations with closed-form values; `idx` selects the
/// family, the parameters come from `rng`.
pub fn make_config(rng: &mut Rng, idx: usize, allow_small_omega: bool) -> Option<Vec<Config>> {
    let family = idx % 11;
    let mut out = vec![];
    let build = |g: GraphSpec, label: String, rng: &mut Rng, delta: Vec<f64>, exact_ln: f64, kin_fix: &dyn Fn(&mut Kin, &mut Rng)| -> Option<Vec<Config>> {
        let mut v = vec![];
        // f64 evaluates V = A - B with a cancellation that grows like xi^(-1/omega_sub); keep the
        // measure of such points negligible: every sub-dod >= 0.35 (property C01 is about the
        // estimator, not about f64 range; hostile corners belong to C02/C07-C11)
        let min_sub = {
            let go = GO::new(&g);
            let om = go.omega_table();
            let full = go.full() as usize;
            (1..full).map(|m| qf(&om[m])).fold(f64::INFINITY, f64::min)
        };
        if g.ne() > 1 && min_sub < 0.35 {
            return None;
        }
        // weights are bounded by (N_T/c_min)^dod ... C_sum^-dod: for a large overall dod that range
        // spans many orders of magnitude and the sample mean is dominated by rare huge weights
        // long before the central limit theorem applies. Keep dod <= 3.5.
        {
            let go = GO::new(&g);
            if qf(&go.dod()) > 3.5 {
                return None;
            }
        }
        // loop-momentum offsets only where every edge is massive (bounded cancellation ratio)
        let offs: i64 = if g.massive.iter().all(|m| *m) { 8 } else { 0 };
        // two different routings of the same configuration
        let mut base_kin: Option<Kin> = None;
        for r in 0..2 {
            let sig = gen::routing(rng, &g, if r == 0 { 0 } else { 4 });
            let mut kin = match &base_kin {
                None => gen::kinematics(rng, &g, &sig, offs, false)?,
                Some(b) => rebuild_for(rng, &g, &sig, b, offs)?,
            };
            if base_kin.is_none() {
                kin_fix(&mut kin, rng);
                base_kin = Some(kin.clone());
            } else {
                let b = base_kin.as_ref().unwrap();
                kin.masses = b.masses.clone();
            }
            let su = Setup::assemble(g.clone(), label.clone(), sig, kin)?;
            let wi = weight_interval(&su);
            let g_max: f64 = (0..g.ne()).map(|e| if delta[e] > 0.0 { (su.kin.masses[e].unwrap_or(1.0).powi(2)).powf(-delta[e]) } else { 1.0 }).product();
            v.push(Config { label: format!("{}#routing{}", label, r), su, delta: delta.clone(), exact: exact_ln.exp(), weight_interval: wi, g_max, min_sub_omega: min_sub });
        }
        Some(v)
    };
    match family {
        0 | 1 => {
            // rose of L massive tadpoles with shifts, test function on every edge
            let l = 1 + rng.below(3);
            let d = 1 + rng.below(6);
            let dh = d as f64 / 2.0;
            let small = allow_small_omega && family == 1 && l == 1;
            let om: Vec<f64> = (0..l).map(|_| if small { *rng.pick(&[0.125, 0.203125, 0.296875]) } else { d8(rng, 0.4, 2.0) }).collect();
            let w: Vec<f64> = om.iter().map(|o| dh + o).collect();
            let delta: Vec<f64> = (0..l).map(|_| *rng.pick(&[0.0, 0.5, 1.0, 1.75])).collect();
            let g = GraphSpec { edges: vec![(0, 0); l], weights: w.clone(), massive: vec![true; l], externals: vec![], d };
            let masses: Vec<f64> = (0..l).map(|_| rng.int(4, 24) as f64 / 8.0).collect();
            let exact: f64 = (0..l).map(|i| ln_tadpole(d as f64, w[i] + delta[i], masses[i])).sum();
            let label = format!("rose(L={},D={},omega={:?},delta={:?})", l, d, om, delta);
            let m2 = masses.clone();
            out.extend(build(g, label, rng, delta, exact, &move |kin: &mut Kin, _r: &mut Rng| {
                for (e, m) in m2.iter().enumerate() {
                    kin.masses[e] = Some(*m);
                }
            })?);
        }
        2 => {
            // massless bubble
            let d = 2 + rng.below(5);
            let dh = d as f64 / 2.0;
            let (mut a, mut b);
            let mut tries = 0;
            loop {
                a = d8(rng, 0.2, dh - 0.35);
                b = d8(rng, 0.2, dh - 0.35);
                tries += 1;
                if a + b > dh + 0.3 || tries > 200 {
                    break;
                }
            }
            if !(a + b > dh + 0.3) {
                return None;
            }
            let g = GraphSpec { edges: vec![(0, 1), (0, 1)], weights: vec![a, b], massive: vec![false; 2], externals: vec![0, 1], d };
            let label = format!("massless_bubble(D={},a={},b={})", d, a, b);
            let cfgs = build(g, label, rng, vec![0.0; 2], 0.0, &|_k: &mut Kin, _r: &mut Rng| {})?;
            for mut c in cfgs {
                let p2: f64 = c.su.kin.ext_mom[0].iter().map(|x| x * x).sum();
                c.exact = (dh * PI.ln() + ln_g(d as f64, a, b) + (dh - a - b) * p2.ln()).exp();
                out.push(c);
            }
        }
        3 => {
            // massless banana with 3 or 4 lines (2 or 3 loops): iterated G functions
            let n = 3 + rng.below(2);
            let d = 2 + rng.below(5);
            let dh = d as f64 / 2.0;
            let mut w = vec![];
            let mut ok = false;
            for _ in 0..400 {
                w = (0..n).map(|_| d8(rng, 0.2, dh - 0.35)).collect::<Vec<f64>>();
                let mut s = w[0];
                ok = true;
                for i in 1..n {
                    if !(s < dh - 0.1 && s > 0.15 && s + w[i] > dh + 0.25) {
                        ok = false;
                        break;
                    }
                    s = s + w[i] - dh;
                }
                if ok && s > 0.3 {
                    break;
                }
                ok = false;
            }
            if !ok {
                return None;
            }
            let g = GraphSpec { edges: (0..n).map(|i| if i % 2 == 0 { (0, 1) } else { (1, 0) }).collect(), weights: w.clone(), massive: vec![false; n], externals: vec![0, 1], d };
            let label = format!("massless_banana(lines={},D={},w={:?})", n, d, w);
            let cfgs = build(g, label, rng, vec![0.0; n], 0.0, &|_k: &mut Kin, _r: &mut Rng| {})?;
            for mut c in cfgs {
                let p2: f64 = c.su.kin.ext_mom[0].iter().map(|x| x * x).sum();
                let mut ln = 0.0;
                let mut s = w[0];
                for i in 1..n {
                    ln += dh * PI.ln() + ln_g(d as f64, s, w[i]);
                    s = s + w[i] - dh;
                }
                ln += -s * p2.ln();
                c.exact = ln.exp();
                out.push(c);
            }
        }
        4 => {
            // chain of two massless bubbles (vertex product)
            let d = 2 + rng.below(5);
            let dh = d as f64 / 2.0;
            let mut w = vec![];
            let mut ok = false;
            for _ in 0..200 {
                w = (0..4).map(|_| d8(rng, 0.2, dh - 0.35)).collect::<Vec<f64>>();
                if w[0] + w[1] > dh + 0.3 && w[2] + w[3] > dh + 0.3 {
                    ok = true;
                    break;
                }
            }
            if !ok {
                return None;
            }
            let g = GraphSpec { edges: vec![(0, 1), (0, 1), (1, 2), (1, 2)], weights: w.clone(), massive: vec![false; 4], externals: vec![0, 2], d };
            let label = format!("bubble_chain(D={},w={:?})", d, w);
            let cfgs = build(g, label, rng, vec![0.0; 4], 0.0, &|_k: &mut Kin, _r: &mut Rng| {})?;
            for mut c in cfgs {
                let p2: f64 = c.su.kin.ext_mom[0].iter().map(|x| x * x).sum();
                let ln = 2.0 * dh * PI.ln() + ln_g(d as f64, w[0], w[1]) + ln_g(d as f64, w[2], w[3]) + (2.0 * dh - w.iter().sum::<f64>()) * p2.ln();
                c.exact = ln.exp();
                out.push(c);
            }
        }
        5 | 6 => {
            // two-loop vacuum sunrise: one massive line (weight a, test function on it), two massless
            let d = 2 + rng.below(5);
            let dh = d as f64 / 2.0;
            let (mut a, mut b, mut c) = (0.0, 0.0, 0.0);
            let mut ok = false;
            for _ in 0..400 {
                b = d8(rng, 0.2, dh - 0.35);
                c = d8(rng, 0.2, dh - 0.35);
                a = d8(rng, 0.3, 3.0);
                if b + c > dh + 0.3 && a + b + c > d as f64 + 0.4 {
                    ok = true;
                    break;
                }
            }
            if !ok {
                return None;
            }
            let delta = *rng.pick(&[0.0, 0.5, 1.25]);
            let m = rng.int(4, 24) as f64 / 8.0;
            let g = GraphSpec { edges: vec![(0, 1), (1, 0), (0, 1)], weights: vec![a, b, c], massive: vec![true, false, false], externals: vec![], d };
            let aa = a + delta;
            let df = d as f64;
            let ln = df * PI.ln() + (df - aa - b - c) * (m * m).ln() + lng(dh - b) + lng(dh - c) + lng(b + c - dh) + lng(aa + b + c - df) - lng(aa) - lng(b) - lng(c) - lng(dh);
            let label = format!("vacuum_sunrise(D={},a={},b={},c={},delta={})", d, a, b, c, delta);
            out.extend(build(g, label, rng, vec![delta, 0.0, 0.0], ln, &move |kin: &mut Kin, _r: &mut Rng| {
                kin.masses[0] = Some(m);
            })?);
        }
        8 => {
            // one-loop two-point function, any D, any masses and weights, test functions on both
            // lines: momentum-space (radial x angular) tanh-sinh quadrature
            let d = 1 + rng.below(6);
            let dh = d as f64 / 2.0;
            let (mut a, mut b);
            loop {
                a = d8(rng, 0.4, 3.0);
                b = d8(rng, 0.4, 3.0);
                if a + b > dh + 0.4 {
                    break;
                }
            }
            let delta = vec![*rng.pick(&[0.0, 0.5, 1.0]), *rng.pick(&[0.0, 0.75])];
            let g = GraphSpec { edges: vec![(0, 1), (1, 0)], weights: vec![a, b], massive: vec![true, true], externals: vec![0, 1], d };
            let label = format!("massive_bubble_quadrature(D={},a={},b={},delta={:?})", d, a, b, delta);
            let cfgs = build(g, label, rng, delta.clone(), 0.0, &|_k: &mut Kin, _r: &mut Rng| {})?;
            for mut c in cfgs {
                let p2: f64 = c.su.kin.ext_mom[0].iter().map(|x| x * x).sum();
                let (m1, m2) = (c.su.kin.masses[0].unwrap(), c.su.kin.masses[1].unwrap());
                c.exact = crate::special::bubble_quadrature(d, a + delta[0], b + delta[1], m1, m2, p2.sqrt());
                out.push(c);
            }
        }
        9 => {
            // massive banana with n = 2..5 unit-weight lines in D = 1 (1 to 4 loops, external
            // momentum, non-trivial L matrix): (2 pi)^(n-1) 2M / ((M^2+p^2) prod 2 m_i), M = sum m_i;
            // optional test function 1/(q_0^2+m_0^2): -(1/2m_0) d/dm_0 of the same expression
            let n = 2 + rng.below(4);
            let with_g = rng.chance(0.5);
            let mut delta = vec![0.0; n];
            if with_g {
                delta[0] = 1.0;
            }
            let g = GraphSpec { edges: (0..n).map(|i| if i % 2 == 0 { (0, 1) } else { (1, 0) }).collect(), weights: vec![1.0; n], massive: vec![true; n], externals: vec![0, 1], d: 1 };
            let label = format!("massive_banana_D1(lines={},test_function={})", n, with_g);
            let cfgs = build(g, label, rng, delta, 0.0, &|_k: &mut Kin, _r: &mut Rng| {})?;
            for mut c in cfgs {
                let p2: f64 = c.su.kin.ext_mom[0].iter().map(|x| x * x).sum();
                let ms: Vec<f64> = c.su.kin.masses.iter().map(|m| m.unwrap()).collect();
                let big_m: f64 = ms.iter().sum();
                let pref = (2.0 * PI).powi(n as i32 - 1) / ms.iter().map(|m| 2.0 * m).product::<f64>();
                let aa = 2.0 * big_m / (big_m * big_m + p2);
                c.exact = if with_g {
                    let da = 2.0 / (big_m * big_m + p2) - 4.0 * big_m * big_m / ((big_m * big_m + p2) * (big_m * big_m + p2));
                    -(1.0 / (2.0 * ms[0])) * pref * (da - aa / ms[0])
                } else {
                    pref * aa
                };
                out.push(c);
            }
        }
        10 => {
            // vertex product: general massive bubble (quadrature) with one or two massive tadpoles
            // attached to one of its vertices: 2-3 loops, masses, external momentum, factorising integral
            let d = 1 + rng.below(6);
            let dh = d as f64 / 2.0;
            let nt = 1 + rng.below(2);
            let (mut a, mut b);
            loop {
                a = d8(rng, 0.4, 3.0);
                b = d8(rng, 0.4, 3.0);
                if a + b > dh + 0.4 {
                    break;
                }
            }
            let wt: Vec<f64> = (0..nt).map(|_| dh + d8(rng, 0.4, 1.5)).collect();
            let mut weights = vec![a, b];
            weights.extend(wt.iter());
            let mut edges = vec![(0u8, 1u8), (1, 0)];
            edges.extend((0..nt).map(|_| (1u8, 1u8)));
            let mut delta = vec![*rng.pick(&[0.0, 0.5]), 0.0];
            delta.extend((0..nt).map(|_| *rng.pick(&[0.0, 1.0])));
            let g = GraphSpec { edges, weights: weights.clone(), massive: vec![true; 2 + nt], externals: vec![0, 1], d };
            let label = format!("bubble_times_tadpoles(D={},w={:?},delta={:?})", d, weights, delta);
            let cfgs = build(g, label, rng, delta.clone(), 0.0, &|_k: &mut Kin, _r: &mut Rng| {})?;
            for mut c in cfgs {
                let p2: f64 = c.su.kin.ext_mom[0].iter().map(|x| x * x).sum();
                let ms: Vec<f64> = c.su.kin.masses.iter().map(|m| m.unwrap()).collect();
                let mut val = crate::special::bubble_quadrature(d, a + delta[0], b + delta[1], ms[0], ms[1], p2.sqrt());
                for t in 0..nt {
                    val *= ln_tadpole(d as f64, wt[t] + delta[2 + t], ms[2 + t]).exp();
                }
                c.exact = val;
                out.push(c);
            }
        }
        _ => {
            // massive bubble with unit weights, D = 1 or 3
            let d = if rng.chance(0.5) { 1 } else { 3 };
            let g = GraphSpec { edges: vec![(0, 1), (1, 0)], weights: vec![1.0, 1.0], massive: vec![true, true], externals: vec![0, 1], d };
            let label = format!("massive_bubble_unit_weights(D={})", d);
            let cfgs = build(g, label, rng, vec![0.0; 2], 0.0, &|_k: &mut Kin, _r: &mut Rng| {})?;
            for mut c in cfgs {
                let p2: f64 = c.su.kin.ext_mom[0].iter().map(|x| x * x).sum();
                let (m1, m2) = (c.su.kin.masses[0].unwrap(), c.su.kin.masses[1].unwrap());
                c.exact = if d == 1 {
                    PI * (m1 + m2) / (m1 * m2 * ((m1 + m2) * (m1 + m2) + p2))
                } else {
                    2.0 * PI * PI / p2.sqrt() * (p2.sqrt() / (m1 + m2)).atan()
                };
                out.push(c);
            }
        }
    }
    Some(out)
}

fn rebuild_for(rng: &mut Rng, g: &GraphSpec, sig: &[Vec<isize>], base: &Kin, offs: i64) -> Option<Kin> {
    // draw kinematics until the external momenta match is not possible; instead construct
    // shifts directly: tree flow for base.ext_mom plus offsets
    let ne = g.ne();
    let d = g.d;
    let vs = gen::vertices_of(&g.edges);
    let mut uf = Uf::new();
    let mut in_tree = vec![false; ne];
    let mut order: Vec<usize> = (0..ne).collect();
    rng.shuffle(&mut order);
    for &e in &order {
        let (a, b) = g.edges[e];
        if a != b && uf.union(a, b) {
            in_tree[e] = true;
        }
    }
    let pv = |v: u8| -> Vec<f64> {
        match g.externals.iter().position(|&x| x == v) {
            Some(i) => base.ext_mom[i].clone(),
            None => vec![0.0; d],
        }
    };
    let mut shifts = vec![vec![0.0; d]; ne];
    for e in 0..ne {
        if !in_tree[e] {
            continue;
        }
        let mut uf2 = Uf::new();
        for f in 0..ne {
            if in_tree[f] && f != e {
                uf2.union(g.edges[f].0, g.edges[f].1);
            }
        }
        let side = uf2.find(g.edges[e].0);
        let mut tot = vec![0.0; d];
        for &v in &vs {
            if uf2.find(v) == side {
                let p = pv(v);
                for k in 0..d {
                    tot[k] += p[k];
                }
            }
        }
        shifts[e] = tot;
    }
    let nl = sig.first().map(|r| r.len()).unwrap_or(0);
    let offsets: Vec<Vec<f64>> = (0..nl).map(|_| (0..d).map(|_| if offs > 0 { rng.int(-offs, offs) as f64 / 8.0 } else { 0.0 }).collect()).collect();
    for e in 0..ne {
        for l in 0..nl {
            for k in 0..d {
                shifts[e][k] += sig[e][l] as f64 * offsets[l][k];
            }
        }
    }
    Some(Kin { ext_mom: base.ext_mom.clone(), masses: base.masses.clone(), shifts, offsets })
}

/// bounded test function g = prod_e (q_e^2 + m_e^2)^(-delta_e)
fn test_function(c: &Config, k: &[Vec<f64>]) -> f64 {
    let su = &c.su;
    let mut g = 1.0;
    for e in 0..su.g.ne() {
        if c.delta[e] == 0.0 {
            continue;
        }
        let mut q2 = 0.0;
        for comp in 0..su.g.d {
            let mut qe = su.kin.shifts[e][comp];
            for l in 0..su.loops {
                qe += su.sig[e][l] as f64 * k[l][comp];
            }
            q2 += qe * qe;
        }
        let m = su.kin.masses[e].unwrap_or(0.0);
        g *= (q2 + m * m).powf(-c.delta[e]);
    }
    g
}

#[derive(Default, Clone, Debug)]
pub struct Tally {
    pub n: u64,
    pub batch_means: Vec<f64>,
    pub errs_gamma: u64,
    pub errs_matrix: u64,
    pub panics: u64,
    pub rescued: u64,
    pub unrescued: u64,
    pub unrescued_example: Option<Value>,
    pub max_val: f64,
    pub sum_val: f64,
}

/// run `n_batches` batches of `per_batch` samples
fn run_batches(c: &Config, seed: u64, stream: u64, n_batches: usize, per_batch: usize) -> Tally {
    let st = Settings::plain();
    let mut t = Tally::default();
    for b in 0..n_batches {
        let mut rng = Rng::derive(seed, &format!("C01:{}", c.label), stream * 1_000_003 + b as u64);
        // Neumaier-compensated sum: millions of equal terms (the single tadpole is pointwise
        // deterministic) otherwise accumulate a relative rounding error of n*eps
        let mut sum = 0.0;
        let mut comp = 0.0;
        for _ in 0..per_batch {
            let before = rng.clone();
            let r = c.su.sampler.sample_rng::<f64, _>(&c.su.kin.masses, &c.su.kin.shifts, &st, &mut rng);
            t.n += 1;
            match &r.outcome {
                Outcome::Ok(o) => {
                    let mut val = o.jacobian * test_function(c, &o.k);
                    let mut suspicious = !val.is_finite() || val < 0.0;
                    if let Some((lo, hi)) = c.weight_interval {
                        let lr = (o.jacobian / c.su.norm).ln();
                        if !(lr >= lo - 1e-3 * (1.0 + lo.abs()) && lr <= hi + 1e-3 * (1.0 + hi.abs())) {
                            suspicious = true;
                        }
                    }
                    if suspicious {
                        // re-evaluate the same x-space point in double-double
                        let mut rr = before.clone();
                        let x: Vec<f64> = (0..c.su.dim).map(|_| rr.gen::<f64>()).collect();
                        let xd: Vec<DD> = x.iter().map(|v| DD::from(*v)).collect();
                        let masses: Vec<Option<DD>> = c.su.kin.masses.iter().map(|m| m.map(DD::from)).collect();
                        let shifts: Vec<Vec<DD>> = c.su.kin.shifts.iter().map(|v| v.iter().map(|q| DD::from(*q)).collect()).collect();
                        let rd = c.su.sampler.sample::<DD>(&xd, &masses, &shifts, &st);
                        let mut ok = false;
                        if let Outcome::Ok(od) = &rd.outcome {
                            let kd: Vec<Vec<f64>> = od.k.iter().map(|v| v.iter().map(|q| q.hi).collect()).collect();
                            let v2 = od.jacobian.hi * test_function(c, &kd);
                            let inside = match c.weight_interval {
                                Some((lo, hi)) => {
                                    let lr = (od.jacobian.hi / c.su.norm).ln();
                                    lr >= lo - 1e-3 * (1.0 + lo.abs()) && lr <= hi + 1e-3 * (1.0 + hi.abs())
                                }
                                None => true,
                            };
                            if v2.is_finite() && v2 >= 0.0 && inside {
                                val = v2;
                                ok = true;
                            }
                        }
                        if ok {
                            t.rescued += 1;
                        } else {
                            t.unrescued += 1;
                            if t.unrescued_example.is_none() {
                                t.unrescued_example = Some(json!({"x": fjv(&x), "f64_jacobian": fj(o.jacobian), "f64_u": fj(o.u), "f64_v": fj(o.v), "double_double_outcome": rd.outcome.kind()}));
                            }
                            val = 0.0;
                        }
                    }
                    if val > t.max_val {
                        t.max_val = val;
                    }
                    t.sum_val += val;
                    let tt = sum + val;
                    if sum.abs() >= val.abs() {
                        comp += (sum - tt) + val;
                    } else {
                        comp += (val - tt) + sum;
                    }
                    sum = tt;
                }
                Outcome::Err(e) => {
                    if e.starts_with("Gamma") {
                        t.errs_gamma += 1;
                    } else {
                        t.errs_matrix += 1;
                    }
                }
                Outcome::Panic(_) => t.panics += 1,
            }
        }
        t.batch_means.push((sum + comp) / per_batch as f64);
    }
    t
}

fn merge(a: &mut Tally, b: Tally) {
    a.n += b.n;
    a.batch_means.extend(b.batch_means);
    a.errs_gamma += b.errs_gamma;
    a.errs_matrix += b.errs_matrix;
    a.panics += b.panics;
    a.rescued += b.rescued;
    a.unrescued += b.unrescued;
    a.max_val = a.max_val.max(b.max_val);
    a.sum_val += b.sum_val;
    if a.unrescued_example.is_none() {
        a.unrescued_example = b.unrescued_example;
    }
}

fn z_of(t: &Tally, exact: f64) -> (f64, f64, f64) {
    let n = t.batch_means.len() as f64;
    let mean = t.batch_means.iter().sum::<f64>() / n;
    let var = t.batch_means.iter().map(|x| (x - mean) * (x - mean)).sum::<f64>() / (n - 1.0);
    // resolution floor: closed forms, Gamma functions and powf agree to ~1e-13 at best; a
    // (nearly) deterministic integrand must not turn that into an infinite z
    let se = (var / n).sqrt() + 1e-11 * exact.abs();
    ((mean - exact) / se, mean, se)
}

/// z after allowing for the bounded contribution of unresolved points
fn z_eff(t: &Tally, c: &Config) -> f64 {
    let (_, mean, se) = z_of(t, c.exact);
    let lost = (t.unrescued + t.errs_matrix) as f64 / t.n as f64;
    let unc = match c.weight_interval {
        Some((_lo, hi)) => lost * hi.exp() * c.su.norm * c.g_max,
        None => if lost > 0.0 { f64::INFINITY } else { 0.0 },
    };
    let dev = if mean < c.exact { (c.exact - mean - unc).max(0.0) } else { mean - c.exact };
    dev / se
}

pub fn run(ctx: &Ctx) -> i32 {
    let qerr = crate::special::quadrature_self_test();
    if !(qerr < 1e-10) {
        out(&format!("INCONCLUSIVE property=C01 quadrature oracle self-test failed: {:e}", qerr));
        return inconclusive_exit();
    }
    let n_cfg_idx = ctx.n(33, 110);
    let n1: usize = ctx.n(400_000, 6_000_000);
    let batches = 64usize;
    // build the catalogue (deterministic in the seed)
    let mut configs: Vec<Config> = vec![];
    for i in 0..n_cfg_idx {
        let mut rng = Rng::derive(ctx.seed, "C01cfg", i as u64);
        for _ in 0..60 {
            if let Some(v) = make_config(&mut rng, i, true) {
                configs.extend(v);
                break;
            }
        }
    }
    let stage = |cfg_ids: &[usize], per_batch: usize, stream: u64| -> Vec<Tally> {
        // work items: (config, chunk of 8 batches)
        let chunks = 8usize;
        let results: Mutex<Vec<(usize, Tally)>> = Mutex::new(vec![]);
        let items: Vec<(usize, usize)> = cfg_ids.iter().flat_map(|c| (0..chunks).map(move |k| (*c, k))).collect();
        let mut sub = ctx.clone();
        sub.only_item = None;
        let _ = par_items(&sub, "C01stage", items.len(), |it, _rng, _acc| {
            let (ci, k) = items[it as usize];
            let t = run_batches(&configs[ci], ctx.seed, stream * 64 + k as u64, batches / chunks, per_batch);
            results.lock().unwrap().push((ci, t));
        });
        let mut out: Vec<Tally> = vec![Tally::default(); configs.len()];
        let mut r = results.into_inner().unwrap();
        r.sort_by_key(|x| x.0);
        for (ci, t) in r {
            merge(&mut out[ci], t);
        }
        out
    };
    let mut acc = Acc::new();
    let all_ids: Vec<usize> = match ctx.only_item {
        Some(i) => vec![i as usize].into_iter().filter(|i| *i < configs.len()).collect(),
        None => (0..configs.len()).collect(),
    };
    let t1 = stage(&all_ids, n1 / batches, 1);
    let mut pending: Vec<usize> = vec![];
    let mut report: Vec<Value> = vec![];
    let mut final_tally: Vec<Option<(Tally, u32)>> = (0..configs.len()).map(|_| None).collect();
    for &ci in &all_ids {
        let z = z_eff(&t1[ci], &configs[ci]);
        if z.abs() < 4.0 {
            final_tally[ci] = Some((t1[ci].clone(), 1));
        } else {
            pending.push(ci);
        }
    }
    acc.add("configs_needing_stage2", pending.len() as u64);
    let t2 = if pending.is_empty() { vec![] } else { stage(&pending, 8 * n1 / batches, 2) };
    let mut pending3 = vec![];
    for &ci in &pending {
        let z = z_eff(&t2[ci], &configs[ci]);
        if z.abs() < 5.0 {
            final_tally[ci] = Some((t2[ci].clone(), 2));
        } else {
            pending3.push(ci);
        }
    }
    acc.add("configs_needing_stage3", pending3.len() as u64);
    let t3 = if pending3.is_empty() { vec![] } else { stage(&pending3, 64 * n1 / batches, 3) };
    for &ci in &pending3 {
        final_tally[ci] = Some((t3[ci].clone(), 3));
    }
    // verdicts
    let mut inconclusive_cfgs = 0;
    for &ci in &all_ids {
        let c = &configs[ci];
        let (t, stage_no) = final_tally[ci].clone().unwrap();
        // error accounting over everything that was drawn for this configuration
        let mut tot = t1[ci].clone();
        if stage_no >= 2 {
            merge(&mut tot, t2[ci].clone());
        }
        if stage_no >= 3 {
            merge(&mut tot, t3[ci].clone());
        }
        let (z_raw, mean, se) = z_of(&t, c.exact);
        acc.evals += tot.n;
        acc.count("configurations");
        acc.set("families", c.label.split('(').next().unwrap_or("").to_string());
        acc.set("D_L_pairs", format!("D{}L{}", c.su.g.d, c.su.loops));
        acc.distinct.insert(hash_str(&c.label));
        // Points whose value could not be established even in double-double (f64/DD range or
        // cancellation) and matrix errors were counted as 0. Their true weight is bounded by the
        // a-priori interval, so the mean can be short by at most `unc`.
        let lost = (tot.unrescued + tot.errs_matrix) as f64 / tot.n as f64;
        let unc = match c.weight_interval {
            Some((_lo, hi)) => lost * hi.exp() * c.su.norm * c.g_max,
            None => if lost > 0.0 { f64::INFINITY } else { 0.0 },
        };
        let dev = if mean < c.exact { (c.exact - mean - unc).max(0.0) } else { mean - c.exact };
        let z = dev / se;
        acc.max("abs_z_final(after_bounded_uncertainty)", z);
        acc.max("relative_standard_error_final", se / c.exact);
        let gamma_frac = tot.errs_gamma as f64 / tot.n as f64;
        acc.max("gamma_error_fraction", gamma_frac);
        acc.max("unresolved_point_fraction", lost);
        acc.add("f64_pathology_rescued", tot.rescued);
        acc.add("unresolved_points(counted_as_zero,bounded)", tot.unrescued);
        acc.add("sampling_errors_gamma", tot.errs_gamma);
        acc.add("sampling_errors_matrix", tot.errs_matrix);
        let row = json!({"config": c.label, "D": c.su.g.d, "loops": c.su.loops, "omega": c.su.omega, "min_sub_omega": c.min_sub_omega, "exact": c.exact, "estimate": mean, "standard_error": se,
                         "z_raw": z_raw, "z_after_bounded_uncertainty": z, "bounded_uncertainty": unc, "stage": stage_no,
                         "samples": tot.n, "gamma_errors": tot.errs_gamma, "matrix_errors": tot.errs_matrix, "panics": tot.panics, "rescued_in_double_double": tot.rescued, "unresolved": tot.unrescued, "largest_single_sample_share_of_sum": if tot.sum_val > 0.0 { tot.max_val / tot.sum_val } else { 0.0 }});
        report.push(row.clone());
        if report.len() <= 3 {
            acc.sample(row.clone());
        }
        let detail = json!({"summary": row, "config": c.su.describe(), "test_function_exponents": c.delta});
        if tot.panics > 0 {
            acc.violate(ci as u64, "panic_while_sampling", "mc:panic", detail.clone());
        }
        if gamma_frac > 1e-5 && tot.errs_gamma >= 5 {
            // a positive-measure part of the hypercube returns GammaError and contributes nothing
            let sigk = if c.su.omega < 0.45 { "mc:gamma_errors_small_omega" } else { "mc:gamma_errors" };
            acc.violate(ci as u64, "points_that_contribute_nothing", sigk, detail.clone());
        }
        let matrix_frac = tot.errs_matrix as f64 / tot.n as f64;
        acc.max("matrix_error_fraction", matrix_frac);
        if matrix_frac > 1e-5 && tot.errs_matrix >= 20 {
            // with every sub-dod >= 0.35 a MatrixError needs a Feynman-parameter spread beyond the
            // f64 range (observed fraction ~1e-8); anything more frequent is points being dropped
            acc.violate(ci as u64, "points_that_contribute_nothing", "mc:matrix_errors", detail.clone());
        }
        if unc > 0.5 * se && stage_no < 3 && z < 4.0 {
            // cannot resolve a bias at this resolution: neither held nor violated
            inconclusive_cfgs += 1;
            acc.count("configs_inconclusive(unresolved_points_dominate)");
        }
        // heavy-tail diagnostic: if a single sample carries more than 1% of the whole sum, the batch
        // means are not Gaussian yet and z is not trustworthy
        let tail_share = if tot.sum_val > 0.0 { tot.max_val / tot.sum_val } else { 0.0 };
        acc.max("largest_single_sample_share_of_sum", tail_share);
        if stage_no == 3 && z > 5.0 && tail_share > 0.01 {
            inconclusive_cfgs += 1;
            acc.count("configs_inconclusive(heavy_tail:one_sample>1%_of_sum)");
        } else if stage_no == 3 {
            if z > 6.0 {
                acc.violate(ci as u64, "biased_estimate", "mc:biased", detail);
            } else if z >= 5.0 {
                inconclusive_cfgs += 1;
                acc.count("configs_inconclusive_5<=|z|<=6");
            }
        }
    }
    let mut fin = Finish::new(
        "catalogue of configurations with independently known integrals (rose of massive tadpoles with shifts and arbitrary unimodular routings; massless bubble; massless 3- and 4-line bananas; chain of two bubbles; 2-loop vacuum sunrise with one massive line; massive unit-weight bubble in D=1,3; \
         general massive one-loop two-point function for any D, weights and masses by momentum-space tanh-sinh quadrature; massive 2-5 line banana in D=1 with 1-4 loops; general bubble times one or two massive tadpoles), D=1..6, dyadic weights, \
         each under two different routings; bounded test functions prod_e (q_e^2+m_e^2)^(-delta_e) on massive lines (closed form at shifted weights). N calls of generate_sample_from_rng in 64 batches; errors contribute 0 and are counted (fraction > 1e-5 is a failure); \
         non-finite or out-of-interval weights are re-evaluated at the same point in double-double. Sequential rule: |z|<4 at N1, else |z|<5 at 8 N1, else violation iff |z|>6 at 64 N1. distinct = distinct configurations",
    )
    .assume("central limit theorem for the batch means (weights are bounded by C02); Lanczos Gamma accurate to 1e-14")
    .extra("per_configuration", Value::Array(report))
    .extra("stage1_samples_per_configuration", json!(n1))
    .extra("quadrature_oracle_self_test_max_relative_error", json!(qerr))
    .min(1000);
    if inconclusive_cfgs > 0 {
        fin.inconclusive.push(format!("{} configurations ended with 5<=|z|<=6 at stage 3", inconclusive_cfgs));
    }
    finish(ctx, acc, fin)
}
