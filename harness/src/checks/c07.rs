//! C07 — Feynman parameters follow the sector formula and the tropical normalisation.
use crate::gen::{self, GraphOpts, XiMode};
use crate::oracle::*;
use crate::run::{Outcome, Settings};
use crate::setup::{lnx, logged, Setup};
use crate::util::*;
use serde_json::json;

pub fn point_modes(rng: &mut Rng, quick: bool) -> XiMode {
    match rng.below(4) {
        0 => XiMode::Uniform,
        1 => XiMode::Benign,
        2 => XiMode::Corner(if quick { 6.0 } else { 15.0 }),
        _ => XiMode::Corner(3.0),
    }
}

pub fn sectors_for(rng: &mut Rng, ne: usize, n_random: usize) -> Vec<Vec<usize>> {
    if ne <= 4 {
        gen::permutations(ne)
    } else if ne == 5 && n_random >= 120 {
        gen::permutations(5)
    } else {
        (0..n_random).map(|_| gen::random_order(rng, ne)).collect()
    }
}

fn graph_case(item: u64, rng: &mut Rng, acc: &mut Acc, quick: bool) {
    let mut o = GraphOpts::std(if quick { 6 } else { 7 });
    o.allow_single_external = true;
    let Some(su) = Setup::random(rng, &o, 2, 4) else {
        acc.count("setup_failed");
        return;
    };
    let ne = su.g.ne();
    let gkey = gen::graph_key(&su.g);
    acc.count("graphs");
    acc.set("E_values", format!("{}", ne));
    acc.set("D_L_pairs", format!("D{}L{}", su.g.d, su.loops));
    if su.single_external {
        acc.count("graphs_single_external");
    }
    let st = Settings { stability: None, debug: true, metadata: false };
    let orders = sectors_for(rng, ne, if quick { 40 } else { 200 });
    let per_sector = if ne <= 3 { 6 } else { 2 };
    let d_half = su.g.d as f64 / 2.0;
    for ord in &orders {
        for _ in 0..per_sector {
            // one point in eight: xi below the f64 epsilon (1e-17 ... 5e-324); with a large omega the
            // kappa stays representable and the sector formula is checked there too
            let mode = if rng.below(8) == 0 { XiMode::Tiny } else { point_modes(rng, quick) };
            let Some(x) = gen::xpoint(rng, &su.sec, su.dim, mode, Some(ord), false) else {
                acc.count("sector_unreachable_in_f64");
                continue;
            };
            let walk = su.sec.walk(&x);
            if walk.min_boundary_dist < 1e-9 || walk.order != *ord {
                acc.count("skipped_near_boundary");
                continue;
            }
            let run = su.sample(&x, &st);
            acc.evals += 1;
            let detail = |extra: serde_json::Value| json!({"config": su.describe(), "x": fjv(&x), "predicted_order": walk.order, "observed": extra});
            if let Outcome::Panic(p) = &run.outcome {
                acc.violate(item, "panic", "sector:panic", detail(json!({"panic": p})));
                continue;
            }
            let Some(lg) = logged(&run) else {
                acc.count("no_debug_log");
                continue;
            };
            if ne >= 3 {
                let mut key = vec![gkey];
                key.extend(ord.iter().map(|e| *e as u64));
                acc.distinct.insert(hash_u64s(&key));
            }
            acc.set("sectors_visited", format!("{:016x}:{:?}", gkey, ord));
            // ---- (i) sector formula
            let mut ln_kappa = 0.0;
            let mut cond = ne as f64;
            // non-dyadic weights: the table's omega carries the rounding of its own f64 evaluation
            // (a few eps of sum w + D L/2, absolute); that moves ln xi/omega by |ln xi|/omega * d_omega/omega
            let dyadic = su.g.weights.iter().all(|w| (w * 64.0).fract() == 0.0);
            let wsum: f64 = su.g.weights.iter().sum();
            let d_omega = if dyadic { 0.0 } else { 4.0 * ne as f64 * (wsum + su.g.d as f64 * su.loops as f64 / 2.0) };
            let mut fails: Vec<String> = vec![];
            let mut underflow = false;
            for k in 0..ne {
                let e = walk.order[k];
                if k > 0 {
                    let om = qf(&su.sec.om[walk.after[k - 1] as usize]);
                    ln_kappa += walk.xi[k - 1].ln() / om;
                    cond += (walk.xi[k - 1].ln() / om).abs() * (1.0 + d_omega / om);
                }
                if ln_kappa < -650.0 {
                    underflow = true;
                    break;
                }
                let got = lg.x_unscaled[e];
                if k == 0 {
                    if got != 1.0 {
                        fails.push(format!("first removed edge {} has parameter {:e}, expected exactly 1", e, got));
                    }
                } else {
                    let err = (got.ln() - ln_kappa).abs();
                    let tol = 8.0 * EPS * cond;
                    acc.max("sector_formula_error_over_tol", err / tol);
                    if !(err <= tol) {
                        fails.push(format!("edge {} (removed {}-th): ln x = {:e}, sector formula gives {:e} (diff {:e}, tol {:e})", e, k + 1, got.ln(), ln_kappa, err, tol));
                    }
                }
            }
            if underflow {
                acc.count("skipped_kappa_underflow");
                continue;
            }
            if !fails.is_empty() {
                acc.violate(item, "sector_formula", "sector:formula", detail(json!({"unrescaled": fjv(&lg.x_unscaled), "failures": fails})));
                continue;
            }
            acc.count("sector_formula_checked");
            // ---- (ii) tropical polynomials at the unrescaled parameters
            if lg.x_unscaled.iter().any(|v| !(*v >= f64::MIN_POSITIVE)) {
                acc.count("skipped_subnormal_parameters");
                continue;
            }
            let lx = lnx(&lg.x_unscaled);
            let sumabs: f64 = lx.iter().map(|v| v.abs()).sum();
            let ttol = 64.0 * EPS * (ne as f64 + sumabs);
            let ln_ut = su.sym.ln_u_trop(&lx);
            let ln_ft = su.sym.ln_f_trop_generic(&lx);
            // the exact intermediate quantities of the rescaling, from the oracle
            let ln_target_oracle = -d_half * ln_ut - su.omega * (ln_ft - ln_ut);
            let intermediate_out_of_range = ln_ut < -708.0 || (ln_ft.is_finite() && ln_ft < -708.0) || ln_target_oracle.abs() > 709.0;
            let mut tf: Vec<String> = vec![];
            if ln_ut < -700.0 || (ln_ft.is_finite() && ln_ft < -700.0) {
                // the true tropical values are below the f64 range: nothing to compare
                acc.count("tropical_values_below_f64_range");
            } else if !((lg.u_trop.ln() - ln_ut).abs() <= ttol) {
                tf.push(format!("u_trop = {:e}, largest U monomial = {:e}", lg.u_trop, ln_ut.exp()));
            }
            if ln_ft.is_finite() && ln_ut >= -700.0 && ln_ft >= -700.0 {
                if !(((lg.u_trop.ln() + lg.v_trop.ln()) - ln_ft).abs() <= ttol) {
                    tf.push(format!("u_trop*v_trop = {:e}, largest monomial of generic F = {:e} (v_trop {:e}, F_tr/U_tr {:e})", lg.u_trop * lg.v_trop, ln_ft.exp(), lg.v_trop, (ln_ft - ln_ut).exp()));
                }
                acc.count("tropical_values_checked");
            } else if !ln_ft.is_finite() {
                acc.count("F_generic_support_empty");
            }
            if !tf.is_empty() {
                let sigk = if su.single_external { "sector:tropical_single_external" } else { "sector:tropical" };
                acc.violate(item, "tropical_polynomials", sigk, detail(json!({"unrescaled": fjv(&lg.x_unscaled), "u_trop": fj(lg.u_trop), "v_trop": fj(lg.v_trop), "failures": tf})));
                continue;
            }
            // ---- (iii) rescaling
            let ln_target = -d_half * lg.u_trop.ln() - su.omega * lg.v_trop.ln();
            if lg.x.iter().any(|v| !v.is_finite() || *v <= 0.0) {
                let sigk = if intermediate_out_of_range { "sector:target_overflow" } else { "sector:rescaled_nonfinite" };
                acc.violate(
                    item,
                    "rescaled_parameters_not_finite_positive",
                    sigk,
                    detail(json!({"unrescaled": fjv(&lg.x_unscaled), "rescaled": fjv(&lg.x), "u_trop": fj(lg.u_trop), "v_trop": fj(lg.v_trop), "ln_target_logged": ln_target, "oracle_ln_U_tr": ln_ut, "oracle_ln_F_tr": ln_ft, "oracle_ln_target": ln_target_oracle, "outcome": run.outcome.kind()})),
                );
                continue;
            }
            let s0 = lg.x[walk.order[0]] / lg.x_unscaled[walk.order[0]];
            let mut rf: Vec<String> = vec![];
            for e in 0..ne {
                let s = lg.x[e] / lg.x_unscaled[e];
                if !(((s - s0) / s0).abs() <= 8.0 * EPS) && lg.x[e] >= f64::MIN_POSITIVE * 1e16 {
                    rf.push(format!("edge {} rescaled by {:e}, edge {} by {:e}", e, s, walk.order[0], s0));
                }
            }
            if lg.x.iter().all(|v| *v >= f64::MIN_POSITIVE) && ln_ft.is_finite() {
                let lxp = lnx(&lg.x);
                let ln_ut2 = su.sym.ln_u_trop(&lxp);
                let ln_ft2 = su.sym.ln_f_trop_generic(&lxp);
                let val = d_half * ln_ut2 + su.omega * (ln_ft2 - ln_ut2);
                let sumabs2: f64 = lxp.iter().map(|v| v.abs()).sum();
                let tol = 256.0 * EPS * (4.0 + d_half * lg.u_trop.ln().abs() + 2.0 * su.omega * lg.v_trop.ln().abs() + (d_half * su.loops as f64 + su.omega) * (sumabs2 + s0.ln().abs()));
                acc.max("normalisation_error_over_tol", val.abs() / tol);
                if !(val.abs() <= tol) {
                    rf.push(format!("ln(U_tr^(D/2) V_tr^dod) at the rescaled parameters = {:e}, expected 0 (tol {:e})", val, tol));
                }
                acc.count("normalisation_checked");
            }
            if !rf.is_empty() {
                // an intermediate (u_trop, u_trop*v_trop or target) outside the normal f64 range
                // spoils the scaling: same root cause as the non-finite case (known finding F7)
                let sigk = if intermediate_out_of_range { "sector:target_overflow" } else { "sector:rescaling" };
                acc.violate(item, "rescaling", sigk, detail(json!({"unrescaled": fjv(&lg.x_unscaled), "rescaled": fjv(&lg.x), "failures": rf})));
                continue;
            }
            if acc.samples.is_empty() {
                acc.sample(json!({"graph": su.g.describe(), "x": x, "order": walk.order, "unrescaled": lg.x_unscaled, "rescaled": lg.x, "u_trop": lg.u_trop, "v_trop": lg.v_trop}));
            }
        }
    }
}

pub fn run(ctx: &Ctx) -> i32 {
    let n_items = ctx.n(1000, 6000);
    let quick = ctx.quick();
    let acc = par_items(ctx, "C07", n_items, |item, rng, acc| graph_case(item, rng, acc, quick));
    let fin = Finish::new(
        "accepted connected graphs (E<=6/7, 1-5 loops, D=1..6, all mass patterns, 0/1/>=2 externals); all E! sectors for E<=4 (5 in thorough), random sectors above; xi uniform / benign / corner 10^-U(0,k) and 1-10^-U(0,k); u directed into the interior of the requested edge interval (points within 1e-9 of a boundary skipped). \
         (i) ln x[s_k] = sum_j ln xi_j / omega(g_j) with exact omegas, first parameter exactly 1; (ii) u_trop and u_trop*v_trop equal the largest monomial of U and of generic F by brute force over spanning trees / 2-forests; (iii) rescaled = common multiple, ln(U_tr^(D/2) V_tr^dod) = 0. \
         distinct = distinct (graph, removal order) with E>=3",
    )
    .assume("generic support of F: a 2-forest term is present iff both trees contain a declared external vertex; mass terms for massive edges")
    .min(1000);
    finish(ctx, acc, fin)
}
