//! C15 — matrix routine returns the true determinant, inverse and Cholesky factors.
//! Reference-model monitor against exact rational linear algebra.
use crate::gen;
use crate::oracle::*;
use crate::run::{mat_to_vecs, Settings};
use crate::util::*;
use momtrop::matrix::SquareMatrix;
use num::{Signed, Zero};
use serde_json::json;

pub fn to_square(a: &[Vec<f64>]) -> SquareMatrix<f64> {
    let n = a.len();
    let mut m = SquareMatrix::new_zeros_from_num(&0.0f64, n);
    for i in 0..n {
        for j in 0..n {
            m[(i, j)] = a[i][j];
        }
    }
    m
}

pub struct Decomp {
    pub det: f64,
    pub inv: Vec<Vec<f64>>,
    pub qt: Vec<Vec<f64>>,
    pub qt_inv: Vec<Vec<f64>>,
}

pub enum DecOutcome {
    Ok(Decomp),
    Err(String),
    Panic(String),
}

pub fn decompose(a: &[Vec<f64>], settings: &Settings) -> DecOutcome {
    let m = to_square(a);
    let st = settings.to_momtrop();
    match catch(|| m.decompose_for_tropical(&st)) {
        Ok(Ok(r)) => DecOutcome::Ok(Decomp {
            det: r.determinant,
            inv: mat_to_vecs(&r.inverse),
            qt: mat_to_vecs(&r.q_transposed),
            qt_inv: mat_to_vecs(&r.q_transposed_inverse),
        }),
        Ok(Err(e)) => DecOutcome::Err(format!("{:?}", e)),
        Err(p) => DecOutcome::Panic(p),
    }
}

fn sym_from_b(b: &[Vec<f64>], delta: f64) -> Vec<Vec<f64>> {
    let n = b.len();
    let mut a = vec![vec![0.0; n]; n];
    for i in 0..n {
        for j in i..n {
            let mut s = 0.0;
            for k in 0..b[i].len() {
                s += b[i][k] * b[j][k];
            }
            if i == j {
                s += delta;
            }
            a[i][j] = s;
            a[j][i] = s;
        }
    }
    a
}

/// SPD matrix families; returns (family name, matrix)
pub fn spd_matrix(rng: &mut Rng, n: usize) -> (String, Vec<Vec<f64>>) {
    let randb = |rng: &mut Rng, n: usize, m: usize| -> Vec<Vec<f64>> { (0..n).map(|_| (0..m).map(|_| rng.normal()).collect()).collect() };
    match rng.below(7) {
        0 => {
            let b = randb(rng, n, n + 2);
            ("BBt+dI".into(), sym_from_b(&b, 10f64.powf(rng.range(-6.0, 0.0))))
        }
        1 => {
            // column graded B D^2 B^T
            let mut b = randb(rng, n, n);
            let span = rng.range(0.0, 5.0);
            for k in 0..n {
                let s = 10f64.powf(-span * k as f64 / n.max(2) as f64);
                for i in 0..n {
                    b[i][k] *= s;
                }
            }
            ("column_graded".into(), sym_from_b(&b, 0.0))
        }
        2 => {
            // two-sided graded D B B^T D
            let b = randb(rng, n, n + 1);
            let mut a = sym_from_b(&b, 0.1);
            let span = rng.range(0.0, 8.0);
            let d: Vec<f64> = (0..n).map(|_| 2f64.powi((rng.range(-span, span) * 3.32) as i32)).collect();
            for i in 0..n {
                for j in 0..n {
                    a[i][j] *= d[i] * d[j];
                }
            }
            ("two_sided_graded".into(), a)
        }
        3 => {
            // Hilbert-like 1/(i+j+c)
            let c = rng.range(1.0, 4.0);
            let a = (0..n).map(|i| (0..n).map(|j| 1.0 / (i as f64 + j as f64 + c)).collect()).collect();
            ("hilbert_like".into(), a)
        }
        4 => {
            // tridiagonal diagonally dominant-ish
            let mut a = vec![vec![0.0; n]; n];
            let off = rng.range(-1.0, 1.0);
            for i in 0..n {
                a[i][i] = 2.0 * off.abs() + 10f64.powf(rng.range(-4.0, 0.5));
                if i + 1 < n {
                    a[i][i + 1] = off;
                    a[i + 1][i] = off;
                }
            }
            ("tridiagonal".into(), a)
        }
        5 => {
            // L matrix of a random signature at corner Feynman parameters
            let ne = n + rng.below(5);
            let mut a = vec![vec![0.0; n]; n];
            // guarantee full rank: first n edges are unit vectors
            for e in 0..ne {
                let x = 10f64.powf(-rng.range(0.0, 4.0));
                let s: Vec<f64> = if e < n {
                    (0..n).map(|i| if i == e { 1.0 } else { 0.0 }).collect()
                } else {
                    (0..n).map(|_| rng.int(-1, 1) as f64).collect()
                };
                for i in 0..n {
                    for j in 0..n {
                        a[i][j] += x * s[i] * s[j];
                    }
                }
            }
            ("graph_L_matrix".into(), a)
        }
        _ => {
            // integer-valued SPD (exact arithmetic in the code for small n)
            let b: Vec<Vec<f64>> = (0..n).map(|_| (0..n + 1).map(|_| rng.int(-3, 3) as f64).collect()).collect();
            ("integer_BBt+I".into(), sym_from_b(&b, 1.0))
        }
    }
}

pub fn run(ctx: &Ctx) -> i32 {
    let per_item = 50usize;
    let n_items = ctx.n(400, 20_000);
    let acc = par_items(ctx, "C15", n_items, |item, rng, acc| {
        for _ in 0..per_item {
            one_matrix(item, rng, acc);
        }
    });
    let fin = Finish::new(
        "random SPD matrices, n=1..8 evenly, seven families (BB^T+dI, column-graded, two-sided graded, Hilbert-like, tridiagonal, graph L matrices at corner Feynman parameters, integer); \
         outputs compared with exact rational inverse/determinant; tolerance 2^6*n*eps*kappa_F; matrices with kappa_F>1e10 or a bound above 1e-3 are counted as skipped_ill_conditioned; \
         distinct = distinct matrices (bit patterns) with n>=2 that were conclusive",
    )
    .assume("exact oracle: Gauss-Jordan over BigRational on the f64 entries of the input")
    .min(1000);
    finish(ctx, acc, fin)
}

fn one_matrix(item: u64, rng: &mut Rng, acc: &mut Acc) {
    let n = 1 + rng.below(8);
    let (family, a) = spd_matrix(rng, n);
    if a.iter().flatten().any(|x| !x.is_finite()) {
        return;
    }
    let aq = qm_from_f64(&a);
    let (det_exact, inv_exact) = qm_det_inv(&aq);
    let Some(inv_exact) = inv_exact else {
        acc.count("skipped_singular_generated");
        return;
    };
    // positive definiteness in exact arithmetic (leading minors via pivots of LDL^T)
    if !is_spd_exact(&aq) {
        acc.count("skipped_not_spd_exactly");
        return;
    }
    let kappa = kappa_f(&aq, &inv_exact);
    let nf = n as f64;
    let k_safety = 64.0;
    let bound = k_safety * nf * EPS * kappa;
    acc.evals += 1;
    acc.count(&format!("n={}", n));
    acc.set("families", family.clone());
    let dec = (kappa.log10().max(0.0)).floor() as i64;
    acc.set("kappa_decades", format!("1e{:02}", dec));
    if !(kappa <= 1e10) || bound > 1e-3 {
        acc.count("skipped_ill_conditioned");
        // still must not panic
        if let DecOutcome::Panic(p) = decompose(&a, &Settings::plain()) {
            acc.violate(item, "panic", "matrix:panic", json!({"matrix": a, "panic": p}));
        }
        return;
    }
    let out = decompose(&a, &Settings::plain());
    let d = match out {
        DecOutcome::Ok(d) => d,
        DecOutcome::Err(e) => {
            acc.violate(item, "spd_rejected", &format!("matrix:spd_rejected:{}", e), json!({"family": family, "matrix": a, "kappa_F": kappa, "error": e}));
            return;
        }
        DecOutcome::Panic(p) => {
            acc.violate(item, "panic", "matrix:panic", json!({"family": family, "matrix": a, "panic": p}));
            return;
        }
    };
    let mut fails: Vec<String> = vec![];
    let all_finite = d.det.is_finite() && [&d.inv, &d.qt, &d.qt_inv].iter().all(|m| m.iter().flatten().all(|x| x.is_finite()));
    if !all_finite {
        fails.push("non-finite output for a well-conditioned SPD matrix".into());
    } else {
        // triangular structure
        for i in 0..n {
            for j in 0..i {
                if d.qt[i][j] != 0.0 {
                    fails.push(format!("q_transposed[{}][{}] = {:e} below the diagonal", i, j, d.qt[i][j]));
                }
                if d.qt_inv[i][j] != 0.0 {
                    fails.push(format!("q_transposed_inverse[{}][{}] = {:e} below the diagonal", i, j, d.qt_inv[i][j]));
                }
            }
            if !(d.qt[i][i] > 0.0) {
                fails.push(format!("q_transposed diagonal {} not positive: {:e}", i, d.qt[i][i]));
            }
        }
        let qt = qm_from_f64(&d.qt);
        let qti = qm_from_f64(&d.qt_inv);
        let inv = qm_from_f64(&d.inv);
        // Q Q^T = qt^T qt = A
        let rec = qm_mul(&qm_transpose(&qt), &qt);
        let mut diff = rec.clone();
        for i in 0..n {
            for j in 0..n {
                diff[i][j] -= &aq[i][j];
            }
        }
        let r1 = frob_f64(&diff) / (k_safety * nf * EPS * frob_f64(&aq));
        acc.max("ratio_QQt_minus_A", r1);
        if !(r1 <= 1.0) {
            fails.push(format!("||Q Q^T - A||_F / bound = {:e}", r1));
        }
        // qt_inv * qt = I
        let mut p = qm_mul(&qti, &qt);
        for i in 0..n {
            p[i][i] -= qi(1);
        }
        let r2 = frob_f64(&p) / (k_safety * nf * EPS * kappa.sqrt().max(1.0) * (nf).sqrt());
        acc.max("ratio_QtInv_Qt_minus_I", r2);
        if !(r2 <= 1.0) {
            fails.push(format!("||Qt^-1 Qt - I||_F / bound = {:e}", r2));
        }
        // inverse vs exact
        let mut di = inv.clone();
        for i in 0..n {
            for j in 0..n {
                di[i][j] -= &inv_exact[i][j];
            }
        }
        let r3 = frob_f64(&di) / (bound * frob_f64(&inv_exact));
        acc.max("ratio_inverse_error", r3);
        if !(r3 <= 1.0) {
            fails.push(format!("||inverse - A^-1||_F / bound = {:e}", r3));
        }
        // determinant
        let dd = (q(d.det) - &det_exact).abs() / det_exact.abs();
        let r4 = qf(&dd) / bound;
        acc.max("ratio_determinant_error", r4);
        if !(r4 <= 1.0) {
            fails.push(format!("|det - exact|/|exact| / bound = {:e} (det {:e}, exact {:e})", r4, d.det, qf(&det_exact)));
        }
    }
    if n >= 2 {
        let key: Vec<u64> = a.iter().flatten().map(|x| x.to_bits()).collect();
        acc.distinct.insert(hash_u64s(&key));
    }
    if acc.samples.is_empty() {
        acc.sample(json!({"family": family, "n": n, "matrix": a, "kappa_F": kappa, "determinant": d.det, "determinant_exact": qf(&det_exact)}));
    }
    if !fails.is_empty() {
        let clause = if fails[0].contains("inverse -") {
            "inverse"
        } else if fails[0].contains("det") {
            "determinant"
        } else if fails[0].contains("Q Q^T") {
            "cholesky_factor"
        } else if fails[0].contains("Qt^-1") {
            "factor_inverse"
        } else {
            "structure"
        };
        acc.violate(item, clause, &format!("matrix:{}", clause), json!({"family": family, "n": n, "matrix": a.iter().map(|r| fjv(r)).collect::<Vec<_>>(), "kappa_F": kappa, "failures": fails}));
    }
}

pub fn is_spd_exact(a: &QM) -> bool {
    // Gaussian elimination without pivoting: all pivots positive <=> SPD (for symmetric a)
    let n = a.len();
    let mut m = a.clone();
    for c in 0..n {
        if !m[c][c].is_positive() {
            return false;
        }
        for r in c + 1..n {
            if m[r][c].is_zero() {
                continue;
            }
            let f = &m[r][c] / &m[c][c];
            for j in c..n {
                let t = &f * &m[c][j];
                m[r][j] -= t;
            }
        }
    }
    true
}

#[allow(dead_code)]
fn unused() {
    let _ = gen::SNAP;
}
