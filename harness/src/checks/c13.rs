//! C13 — Gaussian vectors are the Box-Muller transform of their designated coordinates.
use crate::gen::{self, GraphOpts, XiMode};
use crate::run::{Outcome, Settings};
use crate::setup::Setup;
use crate::util::*;
use serde_json::json;
use std::f64::consts::PI;

fn hostile_a(rng: &mut Rng) -> f64 {
    let v = match rng.below(6) {
        0 => 10f64.powf(-rng.range(0.0, 307.0)),
        1 => f64::MIN_POSITIVE,
        2 => 5e-324,
        3 => 1.0 - 10f64.powf(-rng.range(0.0, 15.9)),
        4 => 1.0 - 2f64.powi(-53),
        _ => rng.fo(),
    };
    if v > 0.0 && v < 1.0 {
        v
    } else {
        0.5
    }
}

fn hostile_b(rng: &mut Rng) -> f64 {
    let v = match rng.below(4) {
        0 => ulps(rng.below(9) as f64 / 8.0, rng.int(-2, 2) as i32),
        1 => rng.below(17) as f64 / 16.0,
        _ => rng.f(),
    };
    if (0.0..1.0).contains(&v) {
        v
    } else {
        0.0
    }
}

fn case(item: u64, rng: &mut Rng, acc: &mut Acc) {
    // cycle through all 30 (D,L) pairs
    let d = 1 + (item as usize % 6);
    let l = 1 + ((item as usize / 6) % 5);
    let mut o = GraphOpts::std(l + 3);
    o.d_choices = vec![d];
    o.min_loops = l;
    o.max_loops = l;
    o.named_prob = 0.0;
    let Some(su) = Setup::random(rng, &o, 2, 4) else {
        acc.count("setup_failed");
        return;
    };
    let ne = su.g.ne();
    let gkey = gen::graph_key(&su.g);
    let base = 2 * ne - 1;
    let n_comp = d * l;
    for _ in 0..40 {
        let Some(mut x) = gen::xpoint(rng, &su.sec, su.dim, XiMode::Benign, None, false) else { continue };
        let n_pairs = (su.dim - base) / 2;
        for i in 0..n_pairs {
            x[base + 2 * i] = hostile_a(rng);
            x[base + 2 * i + 1] = hostile_b(rng);
        }
        let run = su.sample(&x, &Settings::meta());
        acc.evals += 1;
        if let Outcome::Panic(p) = &run.outcome {
            acc.violate(item, "panic_at_legal_point", "gauss:panic", json!({"config": su.describe(), "x": fjv(&x), "panic": p}));
            continue;
        }
        let Outcome::Ok(out) = &run.outcome else {
            acc.count(&format!("sample_{}", run.outcome.kind().chars().take(30).collect::<String>()));
            continue;
        };
        let m = out.meta.as_ref().unwrap();
        acc.set("D_L_pairs", format!("D{}L{}", d, l));
        let mut fails: Vec<String> = vec![];
        if m.q.len() != l || m.q.iter().any(|v| v.len() != d) {
            fails.push(format!("q_vectors has shape {}x{:?}, expected {}x{}", m.q.len(), m.q.first().map(|v| v.len()), l, d));
        } else {
            for c in 0..n_comp {
                let (a, b) = (x[base + 2 * (c / 2)], x[base + 2 * (c / 2) + 1]);
                let r = (-2.0 * a.ln()).sqrt();
                let th = 2.0 * PI * b;
                let want = if c % 2 == 0 { r * th.cos() } else { r * th.sin() };
                let got = m.q[c / d][c % d];
                let tol = 32.0 * EPS * r.max(1.0);
                let err = (got - want).abs();
                acc.max("error_over_tol", err / tol);
                if !(err <= tol) {
                    fails.push(format!(
                        "component {} (loop {}, index {}): got {:e}, Box-Muller of coordinates ({}, {}) = (a={:e}, b={:e}) gives {:e}",
                        c,
                        c / d,
                        c % d,
                        got,
                        base + 2 * (c / 2),
                        base + 2 * (c / 2) + 1,
                        a,
                        b,
                        want
                    ));
                }
            }
            acc.add("components_checked", n_comp as u64);
            if n_comp % 2 == 1 {
                acc.count("odd_DL_samples(last_sine_discarded)");
            }
        }
        let mut key = vec![gkey];
        key.extend(x[base..].iter().map(|v| v.to_bits()));
        acc.distinct.insert(hash_u64s(&key));
        if acc.samples.is_empty() {
            acc.sample(json!({"D": d, "L": l, "tail_of_x": x[base..].to_vec(), "q_vectors": m.q}));
        }
        if !fails.is_empty() {
            acc.violate(item, "box_muller", "gauss:box_muller", json!({"config": su.describe(), "x": fjv(&x), "first_gaussian_coordinate": base, "q_vectors": m.q, "failures": fails}));
        }
    }
}

pub fn run(ctx: &Ctx) -> i32 {
    let n_items = ctx.n(3000, 60_000);
    let acc = par_items(ctx, "C13", n_items, |item, rng, acc| case(item, rng, acc));
    let fin = Finish::new(
        "all 30 (D,L) pairs D=1..6, L=1..5 in rotation (accepted random graphs with exactly L loops); a in {10^-U(0,307), 2.2e-308, 5e-324, 1-10^-U(0,15.9), 1-2^-53, uniform}, b on multiples of 1/8 and 1/16 +-2 ulp and uniform; \
         component c of the flattened (loop-major) q_vectors compared with sqrt(-2 ln a) cos/sin(2 pi b) of the pair (x[2E-1+2*floor(c/2)], x[2E+2*floor(c/2)]), tolerance 32 eps max(1,r); shape must be L x D. distinct = distinct (graph, Gaussian coordinates)",
    )
    .min(2000);
    finish(ctx, acc, fin)
}
