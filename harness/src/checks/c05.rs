//! C05 — build_sampler rejects exactly the graphs with a divergent proper subgraph;
//! deterministic; no panic within the documented size limits.
use crate::gen;
use crate::oracle::*;
use crate::run::{Build, DynSampler, GraphSpec, TableView};
use crate::util::*;
use num::{Signed, Zero};
use serde_json::{json, Value};
use std::io::{Read, Write};
use std::process::{Command, Stdio};

fn digest(g: &GraphSpec, sig: &[Vec<isize>]) -> String {
    match DynSampler::build(g, sig) {
        Build::Ok(s) => format!("OK:{:016x}", hash_str(&s.json_string())),
        Build::Err(m) => format!("ERR:{:016x}", hash_str(&m)),
        Build::Panic(_) => "PANIC".to_string(),
    }
}

/// child process: reads a JSON array of {graph, sig} from stdin, prints one digest per line
pub fn child_main() -> i32 {
    install_panic_hook();
    let mut text = String::new();
    if std::io::stdin().read_to_string(&mut text).is_err() {
        return 2;
    }
    let Ok(v) = serde_json::from_str::<Value>(&text) else { return 2 };
    let mut outp = String::new();
    for c in v.as_array().cloned().unwrap_or_default() {
        let g: GraphSpec = match serde_json::from_value(c["graph"].clone()) {
            Ok(g) => g,
            Err(_) => return 2,
        };
        let sig: Vec<Vec<isize>> = serde_json::from_value(c["sig"].clone()).unwrap_or_default();
        outp.push_str(&digest(&g, &sig));
        outp.push('\n');
    }
    print!("{}", outp);
    let _ = std::io::stdout().flush();
    0
}

fn run_child(cases: &[(GraphSpec, Vec<Vec<isize>>)]) -> Option<Vec<String>> {
    let exe = std::env::current_exe().ok()?;
    let payload: Vec<Value> = cases.iter().map(|(g, s)| json!({"graph": g, "sig": s})).collect();
    let mut child = Command::new(exe).arg("--child-build").stdin(Stdio::piped()).stdout(Stdio::piped()).stderr(Stdio::null()).spawn().ok()?;
    child.stdin.take()?.write_all(serde_json::to_string(&payload).ok()?.as_bytes()).ok()?;
    let outp = child.wait_with_output().ok()?;
    if !outp.status.success() {
        return None;
    }
    Some(String::from_utf8_lossy(&outp.stdout).lines().map(|s| s.to_string()).collect())
}

/// big-graph probe in a subprocess (E = 63, 64: documented limit MAX_EDGES = 64)
pub fn child_big(ne: usize) -> i32 {
    install_panic_hook();
    // a banana of ne parallel edges, all massive, heavy weights: inside the convergence
    // region (a long cycle is avoided: momtrop's component search is exponential in the
    // diameter and would never reach the table allocation)
    let g = GraphSpec {
        edges: (0..ne).map(|_| (0u8, 1u8)).collect(),
        weights: vec![3.0; ne],
        massive: vec![true; ne],
        externals: vec![],
        d: 4,
    };
    let sig: Vec<Vec<isize>> = (0..ne).map(|e| (0..ne - 1).map(|l| if e == l { 1 } else if e == ne - 1 { -1 } else { 0 }).collect()).collect();
    match DynSampler::build(&g, &sig) {
        Build::Ok(_) => println!("BIG OK"),
        Build::Err(m) => println!("BIG ERR {}", m.chars().take(80).collect::<String>()),
        Build::Panic(p) => println!("BIG PANIC {}", p),
    }
    0
}

fn big_probe(ne: usize) -> String {
    let Ok(exe) = std::env::current_exe() else { return "spawn failed".into() };
    let child = Command::new(exe).arg("--child-big").arg(format!("{}", ne)).stdout(Stdio::piped()).stderr(Stdio::null()).spawn();
    let mut child = match child {
        Ok(c) => c,
        Err(e) => return format!("spawn failed: {}", e),
    };
    // generous wall-clock watchdog; its firing is inconclusive, never a verdict
    let t0 = std::time::Instant::now();
    loop {
        match child.try_wait() {
            Ok(Some(_)) => break,
            Ok(None) => {
                if t0.elapsed().as_secs() > 60 {
                    let _ = child.kill();
                    let _ = child.wait();
                    return "watchdog: child killed after 60 s".into();
                }
                std::thread::sleep(std::time::Duration::from_millis(20));
            }
            Err(e) => return format!("wait failed: {}", e),
        }
    }
    let r = child.wait_with_output();
    match r {
        Ok(o) => {
            let s = String::from_utf8_lossy(&o.stdout).trim().to_string();
            if s.is_empty() {
                format!("child died without output (status {:?})", o.status.code())
            } else {
                s
            }
        }
        Err(e) => format!("spawn failed: {}", e),
    }
}

pub fn run(ctx: &Ctx) -> i32 {
    let emax = if ctx.quick() { 9 } else { 13 };
    let n_items = ctx.n(400, 6000);
    let n_items = if ctx.only_item == Some(u64::MAX) { 0 } else { n_items };
    let ctx_items = Ctx { only_item: if ctx.only_item == Some(u64::MAX) { None } else { ctx.only_item }, ..ctx.clone() };
    let mut acc = par_items(&ctx_items, "C05", n_items, |item, rng, acc| {
        let mut cases: Vec<(GraphSpec, Vec<Vec<isize>>)> = vec![];
        let mut digests: Vec<String> = vec![];
        for _ in 0..10 {
            let (g, desc) = gen::any_graph(rng, emax);
            let sig = gen::any_signature(rng, &g);
            let go = GO::new(&g);
            let om = go.omega_table();
            let full = go.full() as usize;
            acc.evals += 1;
            let divergent: Vec<usize> = (1..full).filter(|m| !om[*m].is_positive()).collect();
            let marginal = (1..full).any(|m| qf(&om[m].abs()) < 1e-9);
            let b = DynSampler::build(&g, &sig);
            let case = || json!({"graph": g.describe(), "generator": desc});
            if g.ne() >= 2 {
                acc.distinct.insert(gen::graph_key(&g));
            }
            acc.set("E_values", format!("{:02}", g.ne()));
            match &b {
                Build::Panic(p) => {
                    acc.count("outcome_panic");
                    acc.violate(item, "panic", "build:panic", json!({"case": case(), "panic": p}));
                }
                Build::Err(msg) => {
                    acc.count("outcome_Err");
                    if divergent.is_empty() && !marginal {
                        acc.violate(
                            item,
                            "rejected_convergent_graph",
                            "build:rejected_convergent",
                            json!({"case": case(), "message": msg, "smallest_omega": (1..full).map(|m| qf(&om[m])).fold(f64::INFINITY, f64::min)}),
                        );
                    }
                }
                Build::Ok(s) => {
                    acc.count("outcome_Ok");
                    if !divergent.is_empty() && !marginal {
                        let m = divergent[0];
                        acc.violate(
                            item,
                            "accepted_divergent_graph",
                            "build:accepted_divergent",
                            json!({"case": case(), "divergent_subset_edges": mask_edges(m as u64, g.ne()), "omega": om[m].to_string()}),
                        );
                    }
                    if let Some(tv) = s.table_view() {
                        if divergent.is_empty() {
                            if let Some((m, j)) = tv.j.iter().enumerate().find(|(_, j)| !(j.is_finite() && **j > 0.0)) {
                                acc.violate(item, "j_not_finite_positive", "build:j_not_positive", json!({"case": case(), "subset": m, "J": fj(*j)}));
                            }
                        }
                    }
                }
            }
            if marginal {
                acc.count("marginal_graphs_excluded_from_iff");
            }
            if !divergent.is_empty() {
                acc.count("oracle_divergent");
                if divergent.iter().any(|m| om[*m].is_zero()) {
                    acc.count("oracle_has_exactly_zero_omega");
                }
            } else {
                acc.count("oracle_convergent");
            }
            // determinism: same process again, and another thread
            let d0 = digest(&g, &sig);
            let d1 = digest(&g, &sig);
            let d2 = std::thread::scope(|sc| sc.spawn(|| digest(&g, &sig)).join().unwrap_or_else(|_| "THREAD-PANIC".into()));
            acc.add("determinism_rebuilds", 2);
            if d0 != d1 || d0 != d2 {
                acc.violate(item, "nondeterministic_build", "build:nondeterministic", json!({"case": case(), "digests": [d0.clone(), d1, d2]}));
            }
            if acc.samples.is_empty() {
                acc.sample(json!({"graph": g.describe(), "generator": desc, "outcome": d0.split(':').next(), "oracle_divergent_subsets": divergent.len()}));
            }
            cases.push((g, sig));
            digests.push(d0);
        }
        // separate process (fresh hash seeds, ASLR)
        match run_child(&cases) {
            Some(lines) if lines.len() == cases.len() => {
                acc.add("cross_process_comparisons", lines.len() as u64);
                for (k, l) in lines.iter().enumerate() {
                    if *l != digests[k] {
                        acc.violate(
                            item,
                            "nondeterministic_build_across_processes",
                            "build:nondeterministic_process",
                            json!({"graph": cases[k].0.describe(), "this_process": digests[k], "other_process": l}),
                        );
                    }
                }
            }
            _ => acc.count("cross_process_step_inconclusive"),
        }
    });
    // size-limit probes (documented MAX_EDGES = 64), each in its own subprocess
    if ctx.only_item.is_none() || ctx.only_item == Some(u64::MAX) {
        for ne in [63usize, 64] {
            let r = big_probe(ne);
            acc.evals += 1;
            acc.count("size_limit_probes");
            acc.set("size_limit_probe_results", format!("E={}: {}", ne, r.chars().take(160).collect::<String>()));
            if r.starts_with("BIG PANIC") {
                acc.violate(
                    u64::MAX,
                    "panic_within_documented_size_limit",
                    &format!("build:panic:E={}", ne),
                    json!({"edges": ne, "graph": "banana of E parallel massive edges, weight 3, D=4", "observed": r}),
                );
            } else if !r.starts_with("BIG OK") && !r.starts_with("BIG ERR") {
                acc.count("size_limit_probe_inconclusive");
            }
        }
    }
    let fin = Finish::new(
        "multigraphs from the C03 generator with unfiltered / finder / boundary-crossing weights so that both verdicts occur; Err <=> some non-empty proper subset has exact rational generalised dod <= 0 (graphs with |omega|<1e-9 excluded from the iff); Ok => all J finite and >0; \
         every graph rebuilt in the same process, in another thread and in a separate process (fresh ahash seeds) and the serialisations compared; E=63 and E=64 probed in subprocesses. distinct = distinct graphs with E>=2",
    )
    .min(200);
    finish(ctx, acc, fin)
}
