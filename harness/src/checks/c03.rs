//! C03 — subgraph table holds true loop number, spanning flag, degree of divergence.
//! Reference-model monitor, exhaustive over the 2^E subsets of every generated graph.
use crate::gen;
use crate::oracle::*;
use crate::run::{Build, DynSampler, GraphSpec, TableView};
use crate::util::*;
use num::{Signed, Zero};
use serde_json::json;

/// parse "Generalized DoD: {dod} is negative for subgraph TropicalSubGraphId { id: N, num_edges: M } ... loop number: L, mass-momentum spanning: B, weight sum: W"
pub fn parse_err(msg: &str) -> Option<(f64, u64, u64, bool, f64)> {
    let dod: f64 = msg.split("Generalized DoD: ").nth(1)?.split(" is negative").next()?.trim().parse().ok()?;
    let id: u64 = msg.split("id: ").nth(1)?.split(',').next()?.trim().parse().ok()?;
    let l: u64 = msg.split("loop number: ").nth(1)?.split(',').next()?.trim().parse().ok()?;
    let sp: bool = msg.split("mass-momentum spanning: ").nth(1)?.split(',').next()?.trim().parse().ok()?;
    let ws: f64 = msg.split("weight sum: ").nth(1)?.trim().parse().ok()?;
    Some((dod, id, l, sp, ws))
}

pub fn check_graph(item: u64, g: &GraphSpec, desc: &str, sig: &[Vec<isize>], acc: &mut Acc) {
    let go = GO::new(g);
    let ne = go.ne;
    let full = go.full();
    acc.evals += 1;
    let wsum: f64 = g.weights.iter().sum();
    let tol = 8.0 * ne as f64 * EPS * (wsum + g.d as f64 * ne as f64 / 2.0);
    let case = || json!({"graph": g.describe(), "generator": desc});
    match DynSampler::build(g, sig) {
        Build::Panic(p) => {
            acc.count("build_panic");
            acc.violate(item, "panic", "table:panic", json!({"case": case(), "panic": p}));
        }
        Build::Err(msg) => {
            acc.count("build_Err");
            match parse_err(&msg) {
                None => acc.count("err_message_unparsed"),
                Some((dod, id, l, sp, ws)) => {
                    let mut bad = vec![];
                    if id == 0 || id >= full {
                        bad.push(format!("error names subset id {} which is not a non-empty proper subset", id));
                    } else {
                        if go.cyclomatic(id) as u64 != l {
                            bad.push(format!("loop number {} reported for subset {}, cyclomatic number is {}", l, id, go.cyclomatic(id)));
                        }
                        if go.is_spanning(id) != sp {
                            bad.push(format!("spanning flag {} reported for subset {}, definition gives {}", sp, id, go.is_spanning(id)));
                        }
                        let om = go.omega(id);
                        if !((q(dod) - &om).abs() <= q(tol)) {
                            bad.push(format!("generalised dod {:e} reported for subset {}, exact value {:e}", dod, id, qf(&om)));
                        }
                        let wexact: Q = mask_edges(id, ne).iter().map(|&e| go.w[e].clone()).fold(Q::zero(), |a, b| a + b);
                        if !((q(ws) - &wexact).abs() <= q(tol)) {
                            bad.push(format!("weight sum {:e} reported, exact {:e}", ws, qf(&wexact)));
                        }
                    }
                    acc.count("err_subset_checked");
                    if !bad.is_empty() {
                        acc.violate(item, "error_message_subset", "table:err_subset", json!({"case": case(), "message": msg, "failures": bad}));
                    }
                }
            }
        }
        Build::Ok(s) => {
            acc.count("build_Ok");
            let js = s.json();
            let Some(tv) = s.table_view() else {
                acc.count("harness_errors");
                return;
            };
            // the fallback observation channel (derived Debug) must agree with the serialisation
            if let (Some(a), Some(b)) = (TableView::from_json(&js), TableView::from_debug(&s.debug_string())) {
                let same = a.loop_number == b.loop_number
                    && a.spanning == b.spanning
                    && a.j.iter().zip(&b.j).all(|(x, y)| x.to_bits() == y.to_bits() || (x.is_nan() && y.is_nan()))
                    && a.dod.iter().zip(&b.dod).all(|(x, y)| x.to_bits() == y.to_bits())
                    && (a.cached_factor.to_bits() == b.cached_factor.to_bits() || (!a.cached_factor.is_finite() && !b.cached_factor.is_finite()) )
                    && a.signature == b.signature
                    && a.externals == b.externals
                    && a.topology.len() == b.topology.len()
                    && a.dimension == b.dimension
                    && a.num_loops == b.num_loops;
                acc.count(if same { "debug_view_agrees_with_serialisation" } else { "debug_view_DISAGREES_with_serialisation(harness)" });
            }
            let mut bad: Vec<String> = vec![];
            if tv.loop_number.len() as u64 != full + 1 {
                bad.push(format!("table has {} entries, expected 2^E = {}", tv.loop_number.len(), full + 1));
            } else {
                for m in 0..=full {
                    let i = m as usize;
                    if tv.loop_number[i] != go.cyclomatic(m) as u64 {
                        bad.push(format!("subset {}: loop_number {} vs cyclomatic {}", m, tv.loop_number[i], go.cyclomatic(m)));
                    }
                    if tv.spanning[i] != go.is_spanning(m) {
                        bad.push(format!("subset {}: spanning flag {} vs definition {}", m, tv.spanning[i], go.is_spanning(m)));
                    }
                    let om = go.omega(m);
                    let got = tv.dod[i];
                    if !(got.is_finite() && (q(got) - &om).abs() <= q(tol)) {
                        bad.push(format!("subset {}: generalized_dod {:e} vs exact {:e}", m, got, qf(&om)));
                    }
                    if bad.len() > 8 {
                        break;
                    }
                }
                acc.add("subsets_checked", full + 1);
            }
            // graph-level reports
            let l_full = go.cyclomatic(full) as u64;
            let dod_exact = go.dod();
            if !((q(tv.graph_dod) - &dod_exact).abs() <= q(tol)) {
                bad.push(format!("tropical_graph.dod {:e} vs exact {:e}", tv.graph_dod, qf(&dod_exact)));
            }
            if s.dod().to_bits() != tv.graph_dod.to_bits() {
                bad.push("get_dod() differs from the serialised dod".into());
            }
            if tv.num_loops != l_full {
                bad.push(format!("num_loops {} vs {}", tv.num_loops, l_full));
            }
            let nm = g.massive.iter().filter(|x| **x).count() as u64;
            if tv.num_massive != nm {
                bad.push(format!("num_massive_edges {} vs {}", tv.num_massive, nm));
            }
            if tv.dimension != g.d as u64 {
                bad.push(format!("table.dimension {} vs D {}", tv.dimension, g.d));
            }
            let dl = g.d as u64 * l_full;
            let want_dim = 2 * ne as u64 - 1 + dl + dl % 2;
            if s.dimension() as u64 != want_dim {
                bad.push(format!("get_dimension() {} vs 2E-1+DL+(DL mod 2) = {}", s.dimension(), want_dim));
            }
            if s.num_edges() != ne {
                bad.push(format!("get_num_edges() {} vs {}", s.num_edges(), ne));
            }
            let ws = s.edge_weights();
            if ws.len() != ne || ws.iter().zip(&g.weights).any(|(a, b)| a.to_bits() != b.to_bits()) {
                bad.push(format!("iter_edge_weights() {:?} vs input {:?}", ws, g.weights));
            }
            if tv.topology.len() != ne {
                bad.push("topology length".into());
            } else {
                for e in 0..ne {
                    let t = &tv.topology[e];
                    if t.0 != e as u64 || t.1 != g.edges[e].0 as u64 || t.2 != g.edges[e].1 as u64 || t.3.to_bits() != g.weights[e].to_bits() || t.4 != g.massive[e] {
                        bad.push(format!("topology[{}] = {:?} does not match the input edge", e, t));
                    }
                }
            }
            if tv.externals != g.externals.iter().map(|x| *x as u64).collect::<Vec<_>>() {
                bad.push(format!("external_vertices {:?} vs input {:?}", tv.externals, g.externals));
            }
            let sig_in: Vec<Vec<i64>> = sig.iter().map(|r| r.iter().map(|x| *x as i64).collect()).collect();
            if tv.signature != sig_in {
                bad.push("stored loop_signature differs from the input".into());
            }
            if ne >= 2 {
                acc.distinct.insert(gen::graph_key(g));
            }
            // coverage
            let (nv, nc) = go.vc(full);
            if nc > 1 {
                acc.count("graphs_disconnected");
            }
            if g.edges.iter().any(|e| e.0 == e.1) {
                acc.count("graphs_with_self_loop");
            }
            if g.externals.iter().any(|x| !g.edges.iter().any(|e| e.0 == *x || e.1 == *x)) {
                acc.count("graphs_with_untouched_external");
            }
            let _ = nv;
            acc.set("D_values", format!("{}", g.d));
            acc.set("E_values", format!("{:02}", ne));
            acc.set("loop_numbers", format!("{}", l_full));
            let n_sp = (0..=full).filter(|m| go.is_spanning(*m)).count();
            if n_sp > 1 {
                acc.count("graphs_with_several_spanning_subsets");
            }
            if acc.samples.is_empty() {
                acc.sample(json!({"graph": g.describe(), "generator": desc, "subsets": full + 1, "spanning_subsets": n_sp, "loops": l_full, "dod": tv.graph_dod}));
            }
            if !bad.is_empty() {
                let clause = if bad[0].contains("loop_number") {
                    "loop_number"
                } else if bad[0].contains("spanning") {
                    "spanning_flag"
                } else if bad[0].contains("generalized_dod") {
                    "generalized_dod"
                } else {
                    "graph_level_report"
                };
                acc.violate(item, clause, &format!("table:{}", clause), json!({"case": case(), "failures": bad}));
            }
        }
    }
}

pub fn run(ctx: &Ctx) -> i32 {
    let emax = if ctx.quick() { 7 } else { 11 };
    let n_items = ctx.n(8000, 60000);
    let acc = par_items(ctx, "C03", n_items, |item, rng, acc| {
        for _ in 0..8 {
            let (g, desc) = gen::any_graph(rng, emax);
            let sig = gen::any_signature(rng, &g);
            check_graph(item, &g, &desc, &sig, acc);
        }
    });
    let fin = Finish::new(
        "random multigraphs (self-loops, parallel edges, two components, arbitrary u8 labels incl. 0/255, externals on strict subsets / untouched by edges / duplicated, all mass patterns, D=1..6; weights from the finder, perturbed across the boundary, or unfiltered); \
         for every accepted graph ALL 2^E subsets are compared with union-find definitions of cyclomatic number, spanning flag and exact rational generalised dod; graph-level reports compared with the input; for rejected graphs the subset named in the error is checked. \
         distinct = distinct accepted graphs (edge multiset, masses, weights, externals, D) with E>=2",
    )
    .assume("table index i <-> subset whose edge e is present iff bit e of i is set (the documented id convention)")
    .min(200);
    finish(ctx, acc, fin)
}
