//! C06 — edge selection inverts the tropical edge distribution and is total on [0,1).
//! Reference-model monitor with directed workloads: every reachable subgraph of every
//! generated graph is driven to, and the uniform number is placed on / next to every
//! cumulative boundary and next to 1.
use crate::gen::{self, GraphOpts};
use crate::oracle::*;
use crate::run::{Outcome, Settings};
use crate::setup::Setup;
use crate::util::*;
use num::Signed;
use serde_json::json;

/// xi such that kappa shrinks by a benign factor t in [0.3,0.8]: xi = t^omega
fn benign_xi(rng: &mut Rng, omega: f64) -> f64 {
    let t = rng.range(0.3, 0.8);
    let xi = t.powf(omega);
    xi.clamp(1e-300, 1.0 - 1e-12)
}

pub fn observed_order(x_unscaled: &[f64]) -> Option<Vec<usize>> {
    if x_unscaled.iter().any(|v| !v.is_finite() || *v <= 0.0) {
        return None;
    }
    let mut idx: Vec<usize> = (0..x_unscaled.len()).collect();
    idx.sort_by(|a, b| x_unscaled[*b].partial_cmp(&x_unscaled[*a]).unwrap());
    for w in idx.windows(2) {
        if x_unscaled[w[0]] == x_unscaled[w[1]] {
            return None; // tie: order not readable
        }
    }
    Some(idx)
}

fn graph_case(item: u64, rng: &mut Rng, acc: &mut Acc, emax: usize) {
    let mut o = GraphOpts::std(emax);
    o.max_loops = 4;
    // one item in three: a named topology with EQUAL weights, where many edge probabilities are
    // simple dyadic numbers (1/2, 1/4) and the f64 cumulative sums are exact, so that the
    // semantics AT a boundary (u equal to a partial sum) is observable
    let su = if item % 3 == 0 { symmetric_setup(rng, emax) } else { Setup::random(rng, &o, 2, 4) };
    let Some(su) = su else {
        acc.count("setup_failed");
        return;
    };
    let ne = su.g.ne();
    if ne < 2 {
        return;
    }
    let full: u64 = (1 << ne) - 1;
    let gkey = gen::graph_key(&su.g);
    acc.count("graphs");
    acc.set("E_values", format!("{}", ne));
    let st = Settings { stability: None, debug: true, metadata: false };
    let mut masks: Vec<u64> = (1..=full).filter(|m| m.count_ones() >= 2).collect();
    if masks.len() > 300 {
        rng.shuffle(&mut masks);
        masks.truncate(300);
    }
    for &gm in &masks {
        // prefix: remove the edges outside gm, in random order
        let mut prefix: Vec<usize> = (0..ne).filter(|e| gm >> e & 1 == 0).collect();
        rng.shuffle(&mut prefix);
        let mut xpre: Vec<f64> = vec![];
        let mut mask = full;
        let mut ok = true;
        for &e in &prefix {
            if mask.count_ones() >= 2 {
                match su.sec.u_for(mask, e, rng) {
                    Some(u) => xpre.push(u),
                    None => {
                        ok = false;
                        break;
                    }
                }
            }
            mask ^= 1 << e;
            if mask != 0 {
                xpre.push(benign_xi(rng, qf(&su.sec.om[mask as usize])));
            }
        }
        if !ok || mask != gm {
            acc.count("subgraphs_unreachable_in_f64(interval_too_narrow)");
            continue;
        }
        acc.count("subgraphs_driven_to");
        let iv = su.sec.intervals(gm);
        // test values
        let mut tests: Vec<(f64, &'static str)> = vec![
            (0.0, "zero"),
            (5e-324, "min_subnormal"),
            (2f64.powi(-53), "2^-53"),
            (1.0 - 2f64.powi(-52), "1-2^-52"),
            (1.0 - 2f64.powi(-53), "1-2^-53"),
            (1.0 - 2f64.powi(-51), "1-2^-51"),
        ];
        // replica of the natural f64 evaluation from the table's own numbers; if every partial sum
        // it produces equals the exact rational one, arithmetic at this subgraph is exact and the
        // boundary semantics ("reaches u": >=) can be checked without a rounding window
        let exact_here = su.tv.is_some() && {
            let tvv = su.tv.as_ref().unwrap();
            let jg = tvv.j[gm as usize];
            let mut cum = 0.0f64;
            let mut ok = true;
            for (e, _lo, hi) in iv.iter() {
                let sub = (gm ^ (1 << e)) as usize;
                let p = tvv.j[sub] / jg / tvv.dod[sub];
                cum += p;
                if !(cum.is_finite() && q(cum) == *hi) {
                    ok = false;
                    break;
                }
            }
            ok
        };
        if exact_here {
            acc.count("subgraphs_with_exact_f64_partial_sums");
            for (k, (_e, _lo, hi)) in iv.iter().enumerate() {
                if k + 1 < iv.len() {
                    let c = qf(hi);
                    tests.push((c, "exact_boundary_equal"));
                    tests.push((next_up(c), "exact_boundary_above"));
                    tests.push((next_down(c), "exact_boundary_below"));
                }
            }
        }
        for (k, (_e, lo, hi)) in iv.iter().enumerate() {
            let (l, h) = (qf(lo), qf(hi));
            tests.push((l + (h - l) * rng.range(0.3, 0.7), "interior"));
            if k + 1 < iv.len() {
                for d in -3..=3 {
                    let v = ulps(h, d);
                    if (0.0..1.0).contains(&v) {
                        tests.push((v, "boundary_neighbour"));
                    }
                }
            }
        }
        for (ut, class) in tests {
            // continue the walk from gm with the oracle's expected edge
            let mut x = xpre.clone();
            x.push(ut);
            let uq = q(ut);
            let mut exp_idx = iv.len() - 1;
            for (k, (_e, _lo, hi)) in iv.iter().enumerate() {
                if *hi >= uq {
                    exp_idx = k;
                    break;
                }
            }
            let expected = iv[exp_idx].0;
            // boundary distance
            let mut near = false;
            let mut alt = expected;
            for (k, (_e, _lo, hi)) in iv.iter().enumerate() {
                if k + 1 == iv.len() {
                    break;
                }
                let dist = qf(&((&uq - hi).abs() / hi));
                if dist <= 64.0 * EPS && !exact_here {
                    near = true;
                    // the neighbour on the other side of this boundary
                    alt = if k == exp_idx { iv[k + 1].0 } else { iv[k].0 };
                }
            }
            let mut mask2 = gm ^ (1 << expected);
            if mask2 != 0 {
                x.push(benign_xi(rng, qf(&su.sec.om[mask2 as usize])));
            }
            while mask2 != 0 {
                let e;
                if mask2.count_ones() == 1 {
                    e = mask2.trailing_zeros() as usize;
                } else {
                    // interior of a random edge's interval
                    let cands: Vec<usize> = (0..ne).filter(|k| mask2 >> k & 1 == 1).collect();
                    let pick = cands[rng.below(cands.len())];
                    match su.sec.u_for(mask2, pick, rng) {
                        Some(u) => {
                            x.push(u);
                            e = pick;
                        }
                        None => {
                            // fall back to the widest interval
                            let ivs = su.sec.intervals(mask2);
                            let best = ivs.iter().max_by(|a, b| (&a.2 - &a.1).cmp(&(&b.2 - &b.1))).unwrap();
                            x.push(qf(&((&best.1 + &best.2) / qi(2))));
                            e = best.0;
                        }
                    }
                }
                mask2 ^= 1 << e;
                if mask2 != 0 {
                    x.push(benign_xi(rng, qf(&su.sec.om[mask2 as usize])));
                }
            }
            while x.len() < su.dim {
                x.push(rng.fo());
            }
            let walk = su.sec.walk(&x);
            let run = su.sample(&x, &st);
            acc.evals += 1;
            acc.count(&format!("u_class_{}", class));
            acc.distinct.insert(hash_u64s(&[gkey, gm, ut.to_bits()]));
            let detail = |extra: serde_json::Value| {
                json!({"config": su.describe(), "subgraph_edges": mask_edges(gm, ne), "u": fj(ut), "u_class": class, "x": fjv(&x),
                       "boundaries": iv.iter().map(|t| json!({"edge": t.0, "c_hi": fj(qf(&t.2))})).collect::<Vec<_>>(),
                       "expected_edge": expected, "observed": extra})
            };
            if let Outcome::Panic(p) = &run.outcome {
                acc.count("panics");
                let sigk = if p.contains("could not sample edge") { "edge:panic_fallthrough" } else { "edge:panic_other" };
                acc.violate(item, "panic_for_u_in_[0,1)", sigk, detail(json!({"panic": p})));
                continue;
            }
            let Some(xu) = run.log_vec("momtrop_feynman_parameter_no_rescaling") else {
                acc.count("no_debug_log");
                continue;
            };
            let Some(order) = observed_order(&xu) else {
                acc.count("order_unreadable(underflow_or_tie)");
                continue;
            };
            let pos = prefix.len();
            // prefix must have been followed
            if order[..pos] != prefix[..] {
                acc.violate(item, "directed_prefix_not_followed", "edge:prefix_mismatch", detail(json!({"observed_order": order, "predicted_order": walk.order})));
                continue;
            }
            let got = order[pos];
            if got == expected {
                acc.count("edge_matches");
                if near {
                    acc.count("near_boundary_cases");
                }
                // the rest of the order must follow the prediction as well
                if order != walk.order && walk.min_boundary_dist > 1e-9 {
                    acc.violate(item, "later_edge_mismatch", "edge:later_mismatch", detail(json!({"observed_order": order, "predicted_order": walk.order})));
                }
            } else if near && got == alt {
                acc.count("near_boundary_other_neighbour_accepted");
            } else {
                acc.violate(item, "wrong_edge_selected", "edge:wrong_edge", detail(json!({"observed_edge": got, "observed_order": order, "near_boundary": near})));
            }
            if acc.samples.is_empty() {
                acc.sample(json!({"graph": su.g.describe(), "subgraph_edges": mask_edges(gm, ne), "u": ut, "expected_edge": expected, "observed_edge": got}));
            }
        }
    }
}

/// named topology with equal weights (accepted), default externals on the first two vertices
fn symmetric_setup(rng: &mut Rng, emax: usize) -> Option<Setup> {
    let all = gen::named_topologies();
    for _ in 0..40 {
        let (name, edges) = all[rng.below(all.len())].clone();
        if edges.len() > emax || edges.len() < 2 {
            continue;
        }
        let vs = gen::vertices_of(&edges);
        let d = 1 + rng.below(6);
        let w = *rng.pick(&[0.5, 0.75, 1.0, 1.25, 1.5, 2.0, 3.0]);
        let massive = rng.chance(0.5);
        let ext: Vec<u8> = if vs.len() >= 2 && rng.chance(0.8) { vs.iter().copied().take(if rng.chance(0.5) { 2 } else { vs.len().min(3) }).collect() } else { vec![] };
        let ne = edges.len();
        let g = crate::run::GraphSpec { edges, weights: vec![w; ne], massive: vec![massive; ne], externals: ext, d };
        let go = GO::new(&g);
        let om = go.omega_table();
        if !go.accepted(&om) || !num::Signed::is_positive(&go.dod()) {
            continue;
        }
        if let Some(su) = Setup::from_graph(rng, g, format!("{}:equal_weights({})", name, w), 0, 0) {
            return Some(su);
        }
    }
    None
}

pub fn run(ctx: &Ctx) -> i32 {
    let emax = if ctx.quick() { 6 } else { 8 };
    let n_items = ctx.n(300, 2000);
    let acc = par_items(ctx, "C06", n_items, |item, rng, acc| graph_case(item, rng, acc, emax));
    let fin = Finish::new(
        "accepted connected graphs (E<=6 quick / 8 thorough); EVERY subset with >=2 edges is driven to by sector-directed coordinates, then u is set to: the f64 neighbours (+-0..3 ulp) of every cumulative boundary, an interior point of every interval, 0, 5e-324, 2^-53, 1-2^-51, 1-2^-52, 1-2^-53. \
         Expected edge = first index whose exact rational cumulative sum (from the oracle's J and omega) reaches u; within 64 eps of a boundary either neighbour is accepted; any panic is a violation. The selected edge is read from the unrescaled Feynman parameters of the debug log. \
         distinct = distinct (graph, subgraph, u) triples",
    )
    .assume("xi chosen as t^omega with t in [0.3,0.8] so that the removal order is readable from the strictly decreasing kappa")
    .min(2000);
    finish(ctx, acc, fin)
}
