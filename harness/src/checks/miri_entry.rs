//! Small self-contained workloads for the Miri runs of the thorough tier (and usable under
//! ASan/TSan as smoke tests). They avoid the BigRational oracles (far too slow under an
//! interpreter) and compare the library with itself or with cheap f64 residuals; their job
//! is to drive the code so that Miri can watch for undefined behaviour and data races.
use crate::run::{DynSampler, GraphSpec, Outcome, Settings};
use crate::util::*;

fn graphs() -> Vec<(GraphSpec, Vec<Vec<isize>>, Vec<Option<f64>>, Vec<Vec<f64>>)> {
    let w = 2.0 / 3.0;
    vec![
        (
            GraphSpec { edges: vec![(0, 1), (1, 2), (2, 0)], weights: vec![w; 3], massive: vec![false; 3], externals: vec![0, 1, 2], d: 3 },
            vec![vec![1]; 3],
            vec![None; 3],
            vec![vec![0.0, 0.0, 0.0], vec![3.0, 4.0, 5.0], vec![9.0, 11.0, 13.0]],
        ),
        (
            GraphSpec { edges: vec![(0, 1), (0, 1), (0, 1)], weights: vec![1.25, 1.0, 1.25], massive: vec![true; 3], externals: vec![0, 1], d: 3 },
            vec![vec![1, 0], vec![0, 1], vec![-1, -1]],
            vec![Some(1.0), Some(0.5), Some(2.0)],
            vec![vec![1.0, 0.5, 0.25], vec![0.0; 3], vec![0.0; 3]],
        ),
        (
            // 4 loops in D = 2 (more loops than dimensions), external momentum, massive banana
            GraphSpec { edges: vec![(0, 1), (1, 0), (0, 1), (1, 0), (0, 1)], weights: vec![1.25; 5], massive: vec![true; 5], externals: vec![0, 1], d: 2 },
            vec![vec![1, 0, 0, 0], vec![0, 1, 0, 0], vec![0, 0, 1, 0], vec![0, 0, 0, 1], vec![-1, 1, -1, 1]],
            vec![Some(1.0), Some(0.5), Some(2.0), Some(1.5), Some(0.75)],
            vec![vec![0.0, 0.0], vec![0.0, 0.0], vec![0.0, 0.0], vec![0.0, 0.0], vec![1.5, -0.5]],
        ),
        (
            // 7 loops: matrix dimension 7 spills the SmallVecs to the heap
            GraphSpec { edges: vec![(7, 7); 7], weights: vec![1.5; 7], massive: vec![true; 7], externals: vec![], d: 2 },
            (0..7).map(|e| (0..7).map(|l| if e == l { 1 } else if l + 1 == e { 1 } else { 0 }).collect()).collect(),
            vec![Some(1.0); 7],
            vec![vec![0.25, -0.5]; 7],
        ),
    ]
}

fn bits(o: &Outcome<f64>) -> Vec<u64> {
    match o {
        Outcome::Ok(s) => {
            let mut v = vec![s.u.to_bits(), s.v.to_bits(), s.jacobian.to_bits()];
            v.extend(s.k.iter().flatten().map(|c| c.to_bits()));
            v
        }
        Outcome::Err(e) => vec![hash_str(e)],
        Outcome::Panic(_) => vec![0],
    }
}

pub fn purity(threads: usize, points: usize) -> i32 {
    let mut rng = Rng::new(12345);
    let mut bad = 0;
    let mut calls = 0u64;
    for (g, sig, masses, shifts) in graphs() {
        let Some(s) = DynSampler::build(&g, &sig).ok() else {
            out("MIRI-ENTRY build failed");
            return 2;
        };
        let json_before = s.json_string();
        let n = s.dimension();
        let pts: Vec<Vec<f64>> = (0..points).map(|_| (0..n).map(|_| rng.fo()).collect()).collect();
        let st = Settings { stability: Some(1e-3), debug: false, metadata: true };
        let reference: Vec<Vec<u64>> = pts.iter().map(|x| bits(&s.sample::<f64>(x, &masses, &shifts, &st).outcome)).collect();
        let mism = std::sync::atomic::AtomicU64::new(0);
        let cnt = std::sync::atomic::AtomicU64::new(0);
        std::thread::scope(|sc| {
            for t in 0..threads {
                let (s, pts, reference, masses, shifts, st, mism, cnt) = (&s, &pts, &reference, &masses, &shifts, &st, &mism, &cnt);
                sc.spawn(move || {
                    for rep in 0..2 {
                        for i in 0..pts.len() {
                            let j = (i + t + rep) % pts.len();
                            std::thread::yield_now();
                            let r = s.sample::<f64>(&pts[j], masses, shifts, st);
                            cnt.fetch_add(1, std::sync::atomic::Ordering::Relaxed);
                            if bits(&r.outcome) != reference[j] {
                                mism.fetch_add(1, std::sync::atomic::Ordering::Relaxed);
                            }
                        }
                    }
                });
            }
        });
        bad += mism.load(std::sync::atomic::Ordering::Relaxed);
        calls += cnt.load(std::sync::atomic::Ordering::Relaxed);
        if s.json_string() != json_before {
            bad += 1;
            out("MIRI-ENTRY sampler serialisation changed");
        }
        // serde round trip on the side
        let r = DynSampler::from_json_str(g.d, &json_before);
        match r {
            Ok(r2) => {
                if r2.json_string() != json_before || r2.cbor() != s.cbor() {
                    bad += 1;
                    out("MIRI-ENTRY serde round trip differs");
                }
            }
            Err(e) => {
                bad += 1;
                out(&format!("MIRI-ENTRY deserialisation failed: {} :: {}", e, &json_before[json_before.len().saturating_sub(400)..]));
            }
        }
    }
    out(&format!("MIRI-ENTRY purity threads={} concurrent_calls={} mismatches={}", threads, calls, bad));
    if bad > 0 {
        1
    } else {
        0
    }
}

pub fn matrices() -> i32 {
    use crate::checks::c15::{decompose, DecOutcome};
    let mut rng = Rng::new(777);
    let mut bad = 0;
    let mut n_ok = 0;
    for n in 1..=8usize {
        for kind in 0..3 {
            // integer SPD, indefinite, singular
            let b: Vec<Vec<f64>> = (0..n).map(|_| (0..n + 1).map(|_| rng.int(-3, 3) as f64).collect()).collect();
            let mut a = vec![vec![0.0; n]; n];
            for i in 0..n {
                for j in 0..n {
                    a[i][j] = (0..n + 1).map(|k| b[i][k] * b[j][k]).sum::<f64>() + if i == j { 1.0 } else { 0.0 };
                }
            }
            if kind == 1 {
                a[0][0] = -a[0][0];
            }
            if kind == 2 {
                for i in 0..n {
                    a[i][n - 1] = 0.0;
                    a[n - 1][i] = 0.0;
                }
            }
            for st in [Settings::plain(), Settings { stability: Some(1e-6), debug: false, metadata: false }] {
                match decompose(&a, &st) {
                    DecOutcome::Ok(d) => {
                        n_ok += 1;
                        if kind == 0 {
                            // residual of inverse
                            for i in 0..n {
                                for j in 0..n {
                                    let s: f64 = (0..n).map(|k| d.inv[i][k] * a[k][j]).sum();
                                    if (s - if i == j { 1.0 } else { 0.0 }).abs() > 1e-8 {
                                        bad += 1;
                                    }
                                }
                            }
                        } else if st.stability.is_some() && (d.det.is_nan() || d.inv.iter().flatten().any(|x| x.is_nan())) {
                            bad += 1;
                        }
                    }
                    DecOutcome::Err(_) => {
                        if kind == 0 {
                            bad += 1;
                        }
                    }
                    DecOutcome::Panic(_) => bad += 1,
                }
            }
        }
    }
    out(&format!("MIRI-ENTRY matrices dims=1..8 ok_results={} problems={}", n_ok, bad));
    if bad > 0 {
        1
    } else {
        0
    }
}

pub fn vectors() -> i32 {
    let ctx_seed = 99u64;
    let mut acc = Acc::new();
    let mut rng = Rng::new(ctx_seed);
    for i in 0..300u64 {
        crate::checks::c20::miri_case(i, &mut rng, &mut acc);
    }
    out(&format!("MIRI-ENTRY vectors cases={} violations={}", acc.evals, acc.violations.len()));
    if acc.violations.is_empty() {
        0
    } else {
        1
    }
}

pub fn tables() -> i32 {
    // build_sampler on a few small graphs (hash sets, recursion, serde)
    let mut rng = Rng::new(4242);
    let mut n = 0;
    let mut bad = 0;
    for _ in 0..12 {
        let (g, _d) = crate::gen::any_graph(&mut rng, 5);
        let sig = vec![vec![0isize; 1]; g.ne()];
        let a = match DynSampler::build(&g, &sig) {
            crate::run::Build::Ok(s) => s.json_string(),
            crate::run::Build::Err(e) => e,
            crate::run::Build::Panic(_) => {
                bad += 1;
                continue;
            }
        };
        let b = match DynSampler::build(&g, &sig) {
            crate::run::Build::Ok(s) => s.json_string(),
            crate::run::Build::Err(e) => e,
            crate::run::Build::Panic(_) => String::new(),
        };
        if a != b {
            bad += 1;
        }
        n += 1;
    }
    out(&format!("MIRI-ENTRY tables graphs={} problems={}", n, bad));
    if bad > 0 {
        1
    } else {
        0
    }
}
