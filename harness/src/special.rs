//! Special functions implemented independently of statrs (which momtrop uses).
use std::f64::consts::PI;

const LANCZOS_G: f64 = 7.0;
const LANCZOS: [f64; 9] = [
    0.999_999_999_999_809_93,
    676.520_368_121_885_1,
    -1_259.139_216_722_402_8,
    771.323_428_777_653_13,
    -176.615_029_162_140_59,
    12.507_343_278_686_905,
    -0.138_571_095_265_720_12,
    9.984_369_578_019_571_6e-6,
    1.505_632_735_149_311_6e-7,
];

/// ln Gamma(x) for x > 0 (Lanczos g=7, n=9)
pub fn ln_gamma(x: f64) -> f64 {
    if x < 0.5 {
        // reflection
        return (PI / (PI * x).sin()).ln() - ln_gamma(1.0 - x);
    }
    let x = x - 1.0;
    let mut a = LANCZOS[0];
    let t = x + LANCZOS_G + 0.5;
    for (i, c) in LANCZOS.iter().enumerate().skip(1) {
        a += c / (x + i as f64);
    }
    0.5 * (2.0 * PI).ln() + (x + 0.5) * t.ln() - t + a.ln()
}

pub fn gamma(x: f64) -> f64 {
    // exact for small integers and half-integers
    if x > 0.0 && x <= 20.0 && (2.0 * x).fract() == 0.0 {
        if x.fract() == 0.0 {
            let mut r = 1.0;
            let mut k = 1.0;
            while k < x {
                r *= k;
                k += 1.0;
            }
            return r;
        } else {
            let mut r = PI.sqrt();
            let mut k = 0.5;
            while k < x {
                r *= k;
                k += 1.0;
            }
            return r;
        }
    }
    if x < 0.5 {
        return PI / ((PI * x).sin() * gamma(1.0 - x));
    }
    ln_gamma(x).exp()
}

/// regularised lower incomplete gamma P(a,x) and upper Q(a,x); a > 0, x >= 0.
/// Series for x < a+1, modified Lentz continued fraction otherwise. No "x ~ 0 => 0" shortcut.
pub fn gamma_pq(a: f64, x: f64) -> (f64, f64) {
    if !(a > 0.0) || x.is_nan() {
        return (f64::NAN, f64::NAN);
    }
    if x <= 0.0 {
        return (0.0, 1.0);
    }
    if x == f64::INFINITY {
        return (1.0, 0.0);
    }
    let lg = ln_gamma(a);
    if x < a + 1.0 {
        // P = x^a e^-x / Gamma(a+1) * sum_{n>=0} x^n / ((a+1)...(a+n))
        let mut sum = 1.0;
        let mut term = 1.0;
        let mut n = 1.0;
        loop {
            term *= x / (a + n);
            sum += term;
            if term.abs() < sum.abs() * 1e-17 || n > 10000.0 {
                break;
            }
            n += 1.0;
        }
        let lnpre = a * x.ln() - x - lg - a.ln();
        let p = (lnpre.exp() * sum).min(1.0);
        (p, 1.0 - p)
    } else {
        // Q = e^-x x^a / Gamma(a) * CF
        let tiny = 1e-300;
        let mut b = x + 1.0 - a;
        let mut c = 1.0 / tiny;
        let mut d = 1.0 / b;
        let mut h = d;
        let mut i = 1.0;
        loop {
            let an = -i * (i - a);
            b += 2.0;
            d = an * d + b;
            if d.abs() < tiny {
                d = tiny;
            }
            c = b + an / c;
            if c.abs() < tiny {
                c = tiny;
            }
            d = 1.0 / d;
            let del = d * c;
            h *= del;
            if (del - 1.0).abs() < 1e-16 || i > 100000.0 {
                break;
            }
            i += 1.0;
        }
        let lnpre = a * x.ln() - x - lg;
        let qv = (lnpre.exp() * h).min(1.0);
        (1.0 - qv, qv)
    }
}

/// ln P(a,x) for tiny x (leading series), usable where P underflows comparisons
pub fn ln_p_small(a: f64, x: f64) -> f64 {
    // P ~ x^a e^-x/Gamma(a+1) (1 + x/(a+1) + ...)
    a * x.ln() - x - ln_gamma(a + 1.0) + (1.0 + x / (a + 1.0) + x * x / ((a + 1.0) * (a + 2.0))).ln()
}

pub fn erf(x: f64) -> f64 {
    // via P(1/2, x^2)
    if x >= 0.0 {
        gamma_pq(0.5, x * x).0
    } else {
        -gamma_pq(0.5, x * x).0
    }
}

/// self-test of this module against exact identities; returns (max relative error seen, n tests)
pub fn self_test() -> (f64, usize) {
    let mut worst: f64 = 0.0;
    let mut n = 0;
    let mut chk = |got: f64, want: f64| {
        let e = ((got - want) / want.abs().max(1e-300)).abs();
        if e > worst {
            worst = e;
        }
        n += 1;
    };
    // Gamma duplication: Gamma(z)Gamma(z+1/2) = 2^(1-2z) sqrt(pi) Gamma(2z)
    for k in 1..200 {
        let z = 0.037 * k as f64 + 0.011;
        let lhs = ln_gamma(z) + ln_gamma(z + 0.5);
        let rhs = (1.0 - 2.0 * z) * 2f64.ln() + 0.5 * PI.ln() + ln_gamma(2.0 * z);
        chk(lhs.exp(), rhs.exp());
        // recurrence
        chk(gamma(z + 1.0), z * gamma(z));
    }
    // P(1,x) = 1-exp(-x)
    for k in 0..200 {
        let x = 10f64.powf(-12.0 + 0.07 * k as f64);
        let (p, qq) = gamma_pq(1.0, x);
        chk(p, -(-x).exp_m1());
        chk(qq, (-x).exp());
    }
    // P(2,x) = 1 - (1+x) e^-x ; P(3,x) = 1-(1+x+x^2/2)e^-x  (through Q to avoid cancellation)
    for k in 0..100 {
        let x = 0.05 + 0.2 * k as f64;
        chk(gamma_pq(2.0, x).1, (1.0 + x) * (-x).exp());
        chk(gamma_pq(3.0, x).1, (1.0 + x + x * x / 2.0) * (-x).exp());
    }
    // recurrence P(a+1,x) = P(a,x) - x^a e^-x / Gamma(a+1)
    for k in 1..100 {
        let a = 0.05 * k as f64;
        for j in 1..20 {
            let x = 0.3 * j as f64;
            let lhs = gamma_pq(a + 1.0, x).0;
            let rhs = gamma_pq(a, x).0 - (a * x.ln() - x - ln_gamma(a + 1.0)).exp();
            let e = (lhs - rhs).abs();
            if e > worst {
                worst = e;
            }
            n += 1;
        }
    }
    (worst, n)
}

// ---------------------------------------------------------------------------------------
// tanh-sinh quadrature and the one-loop two-point integral in momentum space
// ---------------------------------------------------------------------------------------
/// integral of f over (a,b) by double-exponential (tanh-sinh) quadrature
pub fn tanh_sinh<F: Fn(f64) -> f64>(f: F, a: f64, b: f64, h: f64) -> f64 {
    let c = 0.5 * (a + b);
    let d = 0.5 * (b - a);
    let mut s = 0.0;
    let n = (3.6 / h).ceil() as i64;
    for j in -n..=n {
        let t = j as f64 * h;
        let u = std::f64::consts::FRAC_PI_2 * t.sinh();
        let ch = u.cosh();
        let x = u.tanh();
        let w = std::f64::consts::FRAC_PI_2 * t.cosh() / (ch * ch);
        // distance to the end points computed without cancellation
        let one_minus = 1.0 / (u.exp() * ch); // 1 - tanh(u) for u>0 ; for u<0 it is 1+|tanh|
        let xx = if u >= 0.0 { c + d * (1.0 - one_minus) } else { c - d * (1.0 - 1.0 / ((-u).exp() * ch)) };
        let _ = x;
        if xx <= a || xx >= b || w == 0.0 {
            continue;
        }
        let v = f(xx);
        if v.is_finite() {
            s += w * v;
        }
    }
    s * d * h
}

/// int d^D k (k^2+m1^2)^-a ((k+p)^2+m2^2)^-b  in momentum space (radial x angular quadrature),
/// m1, m2 > 0, p = |p| >= 0.
pub fn bubble_quadrature(d: usize, a: f64, b: f64, m1: f64, m2: f64, p: f64) -> f64 {
    let h = 1.0 / 24.0;
    // peaks of the integrand sit at k = 0 and (radially) at k = p: split there so that every
    // peak is at an end point, where the double-exponential rule is at its best
    if d == 1 {
        let f = |k: f64| (k * k + m1 * m1).powf(-a) * ((k + p) * (k + p) + m2 * m2).powf(-b);
        let right = |t: f64| f(t / (1.0 - t)) / ((1.0 - t) * (1.0 - t));
        let left = |t: f64| f(-p - t / (1.0 - t)) / ((1.0 - t) * (1.0 - t));
        let mid = if p > 0.0 { tanh_sinh(|k| f(k), -p, 0.0, h) } else { 0.0 };
        return tanh_sinh(right, 0.0, 1.0, h) + tanh_sinh(left, 0.0, 1.0, h) + mid;
    }
    let df = d as f64;
    let area = 2.0 * PI.powf((df - 1.0) / 2.0) / gamma((df - 1.0) / 2.0);
    let radial = |k: f64| {
        let inner = |th: f64| th.sin().powi(d as i32 - 2) * (k * k + 2.0 * k * p * th.cos() + p * p + m2 * m2).powf(-b);
        let ang = tanh_sinh(inner, 0.0, PI, h);
        k.powi(d as i32 - 1) * (k * k + m1 * m1).powf(-a) * ang
    };
    let tail = |t: f64| radial(p + t / (1.0 - t)) / ((1.0 - t) * (1.0 - t));
    let head = if p > 0.0 { tanh_sinh(|k| radial(k), 0.0, p, h) } else { 0.0 };
    area * (head + tanh_sinh(tail, 0.0, 1.0, h))
}

/// self-test of the quadrature against closed forms; returns the largest relative error
pub fn quadrature_self_test() -> f64 {
    let mut worst: f64 = 0.0;
    // unit weights, D = 1 and D = 3
    for &(m1, m2, p) in &[(1.0, 2.0, 1.5), (0.5, 0.75, 3.0), (2.0, 2.0, 0.25)] {
        let e1 = PI * (m1 + m2) / (m1 * m2 * ((m1 + m2) * (m1 + m2) + p * p));
        let q1 = bubble_quadrature(1, 1.0, 1.0, m1, m2, p);
        worst = worst.max(((q1 - e1) / e1).abs());
        let e3 = 2.0 * PI * PI / p * (p / (m1 + m2)).atan();
        let q3 = bubble_quadrature(3, 1.0, 1.0, m1, m2, p);
        worst = worst.max(((q3 - e3) / e3).abs());
        if std::env::var("QUAD_DEBUG").is_ok() {
            eprintln!("unit bubble m1={} m2={} p={}: D=1 {:e} D=3 {:e}", m1, m2, p, ((q1 - e1) / e1).abs(), ((q3 - e3) / e3).abs());
        }
    }
    // tadpole limit b = 0, D = 1..6
    for d in 1..=6usize {
        let df = d as f64;
        let a = df / 2.0 + 0.7;
        let m: f64 = 1.25;
        let e = (df / 2.0 * PI.ln() + ln_gamma(a - df / 2.0) - ln_gamma(a) + (df / 2.0 - a) * (m * m).ln()).exp();
        let qv = bubble_quadrature(d, a, 0.0, m, 1.0, 0.8);
        if std::env::var("QUAD_DEBUG").is_ok() {
            eprintln!("tadpole D={} rel err {:e}", d, ((qv - e) / e).abs());
        }
        worst = worst.max(((qv - e) / e).abs());
    }
    worst
}
