//! A complete sampling configuration (graph, routing, kinematics, sampler, oracles) and the
//! exact evaluation of everything the sample-level properties talk about at one point.
use crate::gen::{self, GraphOpts, Kin, Sector};
use crate::oracle::*;
use crate::run::{DynSampler, GraphSpec, Outcome, Run, SampleOut, Settings, TableView};
use crate::util::*;
use num::{One, Signed, Zero};
use serde_json::{json, Value};

pub struct Setup {
    pub g: GraphSpec,
    pub name: String,
    pub sig: Vec<Vec<isize>>,
    pub kin: Kin,
    pub sampler: DynSampler,
    /// table view from the serialisation; None if the serialised layout no longer exposes it
    pub tv: Option<TableView>,
    /// normalisation used for weight bounds: the table's cached_factor, else the oracle's value
    pub norm: f64,
    pub sec: Sector,
    pub sym: Symanzik,
    pub loops: usize,
    pub omega: f64,
    pub dim: usize,
    pub single_external: bool,
}

impl Setup {
    pub fn describe(&self) -> Value {
        json!({"graph": self.g.describe(), "generator": self.name, "signature": self.sig, "kinematics": self.kin.describe()})
    }
    /// Build a configuration from an accepted connected graph
    pub fn from_graph(rng: &mut Rng, g: GraphSpec, name: String, mix: usize, max_offset: i64) -> Option<Setup> {
        let sig = gen::routing(rng, &g, mix);
        let kin = gen::kinematics(rng, &g, &sig, max_offset, true)?;
        Setup::assemble(g, name, sig, kin)
    }
    pub fn assemble(g: GraphSpec, name: String, sig: Vec<Vec<isize>>, kin: Kin) -> Option<Setup> {
        let sampler = DynSampler::build(&g, &sig).ok()?;
        let tv = sampler.table_view();
        let go = GO::new(&g);
        let sec = Sector::new(&go)?;
        let sym = Symanzik::new(&go, &kin.ext_q(), &kin.masses_q());
        let loops = go.cyclomatic(go.full());
        let omega = qf(&go.dod());
        let dim = sampler.dimension();
        let single_external = {
            let mut e = g.externals.clone();
            e.sort();
            e.dedup();
            e.len() == 1
        };
        let norm = match &tv {
            Some(t) => t.cached_factor,
            None => {
                let jfull = qf(&sec.j[(1usize << g.ne()) - 1]);
                crate::checks::c04::normalisation_oracle(&g, jfull, omega, loops)
            }
        };
        Some(Setup { g, name, sig, kin, sampler, tv, norm, sec, sym, loops, omega, dim, single_external })
    }
    pub fn random(rng: &mut Rng, o: &GraphOpts, mix: usize, max_offset: i64) -> Option<Setup> {
        let (g, name) = gen::accepted_graph(rng, o)?;
        Setup::from_graph(rng, g, name, mix, max_offset)
    }
    pub fn sample(&self, x: &[f64], st: &Settings) -> Run<f64> {
        self.sampler.sample::<f64>(x, &self.kin.masses, &self.kin.shifts, st)
    }
    /// same graph and x-space, different routing / orientation / offsets (for metamorphic checks)
    pub fn reroute(&self, rng: &mut Rng, mix: usize, max_offset: i64, flip: bool) -> Option<Setup> {
        let mut sig = gen::routing(rng, &self.g, mix);
        // same external momenta, new tree flow and offsets
        let mut kin = gen::kinematics(rng, &self.g, &sig, max_offset, false)?;
        // reuse the same external momenta and masses: recompute shifts for them
        kin = rebuild_shifts(rng, &self.g, &sig, &self.kin, max_offset)?;
        if flip {
            for e in 0..self.g.ne() {
                if rng.chance(0.4) {
                    for l in 0..sig[e].len() {
                        sig[e][l] = -sig[e][l];
                    }
                    for k in 0..kin.shifts[e].len() {
                        kin.shifts[e][k] = -kin.shifts[e][k];
                    }
                }
            }
        }
        Setup::assemble(self.g.clone(), format!("{}+rerouted", self.name), sig, kin)
    }
}

/// shifts for the same external momenta/masses as `base`, for a new signature and offsets
fn rebuild_shifts(rng: &mut Rng, g: &GraphSpec, sig: &[Vec<isize>], base: &Kin, max_offset: i64) -> Option<Kin> {
    let ne = g.ne();
    let d = g.d;
    let vs = gen::vertices_of(&g.edges);
    let mut uf = Uf::new();
    let mut in_tree = vec![false; ne];
    let mut order: Vec<usize> = (0..ne).collect();
    rng.shuffle(&mut order);
    for &e in &order {
        let (a, b) = g.edges[e];
        if a != b && uf.union(a, b) {
            in_tree[e] = true;
        }
    }
    let pv = |v: u8| -> Vec<f64> {
        match g.externals.iter().position(|&x| x == v) {
            Some(i) => base.ext_mom[i].clone(),
            None => vec![0.0; d],
        }
    };
    let mut shifts = vec![vec![0.0; d]; ne];
    for e in 0..ne {
        if !in_tree[e] {
            continue;
        }
        let mut uf2 = Uf::new();
        for f in 0..ne {
            if in_tree[f] && f != e {
                uf2.union(g.edges[f].0, g.edges[f].1);
            }
        }
        let side = uf2.find(g.edges[e].0);
        let mut tot = vec![0.0; d];
        for &v in &vs {
            if uf2.find(v) == side {
                let p = pv(v);
                for k in 0..d {
                    tot[k] += p[k];
                }
            }
        }
        shifts[e] = tot;
    }
    let nl = sig.first().map(|r| r.len()).unwrap_or(0);
    let offsets: Vec<Vec<f64>> =
        (0..nl).map(|_| (0..d).map(|_| if max_offset > 0 { rng.int(-max_offset, max_offset) as f64 / 8.0 } else { 0.0 }).collect()).collect();
    for e in 0..ne {
        for l in 0..nl {
            for k in 0..d {
                shifts[e][k] += sig[e][l] as f64 * offsets[l][k];
            }
        }
    }
    Some(Kin { ext_mom: base.ext_mom.clone(), masses: base.masses.clone(), shifts, offsets })
}

/// Exact quantities at the (rescaled) Feynman parameters of one sample.
pub struct Exact {
    pub x: Vec<Q>,
    pub l: QM,
    pub det: Q,
    pub inv: QM,
    pub kappa: f64,
    /// u vectors: [loop][component]
    pub uvec: Vec<Vec<Q>>,
    /// sum of |x_e s_el p_e| per component
    pub uvec_abs: Vec<Vec<Q>>,
    pub a: Q,
    pub b: Q,
    pub v: Q,
    /// majorant used in the error model of v
    pub bmaj: f64,
    pub cond_v: f64,
    /// exact cancellation ratio of V = A - B: (A + |B|)/|V| (V itself is perfectly conditioned
    /// with respect to the Feynman parameters; only the subtraction loses digits)
    pub cancel_ratio: f64,
    /// L^-1 u : [loop][component]
    pub shift: Vec<Vec<Q>>,
    pub inv_frob: f64,
}

impl Exact {
    /// None if some parameter is non-finite, non-positive, or L is singular
    pub fn at(su: &Setup, xs: &[f64]) -> Option<Exact> {
        if xs.iter().any(|v| !v.is_finite() || *v <= 0.0) {
            return None;
        }
        let x: Vec<Q> = xs.iter().map(|v| q(*v)).collect();
        let nl = su.loops;
        let d = su.g.d;
        let l = l_exact(&x, &su.sig);
        let (det, inv) = qm_det_inv(&l);
        let inv = inv?;
        let kappa = kappa_f(&l, &inv);
        let mut uvec = vec![vec![Q::zero(); d]; nl];
        let mut uvec_abs = vec![vec![Q::zero(); d]; nl];
        let mut a = Q::zero();
        for e in 0..su.g.ne() {
            let m = su.kin.masses[e].unwrap_or(0.0);
            let mut t = q(m) * q(m);
            for k in 0..d {
                let p = q(su.kin.shifts[e][k]);
                t += &p * &p;
                for li in 0..nl {
                    if su.sig[e][li] != 0 {
                        let term = &x[e] * qi(su.sig[e][li] as i64) * &p;
                        uvec_abs[li][k] += term.abs();
                        uvec[li][k] += term;
                    }
                }
            }
            a += &x[e] * t;
        }
        let mut b = Q::zero();
        for i in 0..nl {
            for j in 0..nl {
                let mut dot = Q::zero();
                for k in 0..d {
                    dot += &uvec[i][k] * &uvec[j][k];
                }
                b += dot * &inv[i][j];
            }
        }
        let v = &a - &b;
        let inv_frob = frob_f64(&inv);
        // ||u~||^2 ||L^-1||_F without intermediate underflow: u~ can be 1e-190 while L^-1 is 1e+190
        let umax = uvec_abs.iter().flatten().map(qf).fold(0.0f64, f64::max);
        let bmaj = if umax == 0.0 {
            0.0
        } else {
            let u2s: f64 = uvec_abs.iter().flatten().map(|c| (qf(c) / umax) * (qf(c) / umax)).sum();
            (1.0 + kappa) * (inv_frob * umax) * umax * u2s
        };
        let vf = qf(&v.abs());
        let cond_v = (qf(&a) + bmaj) / vf;
        let cancel_ratio = (qf(&a) + qf(&b.abs())) / vf;
        let mut shift = vec![vec![Q::zero(); d]; nl];
        for i in 0..nl {
            for k in 0..d {
                for j in 0..nl {
                    shift[i][k] += &inv[i][j] * &uvec[j][k];
                }
            }
        }
        Some(Exact { x, l, det, inv, kappa, uvec, uvec_abs, a, b, v, bmaj, cond_v, cancel_ratio, shift, inv_frob })
    }
    /// relative error bound for the code's u (determinant)
    pub fn bound_u(&self, k_safety: f64) -> f64 {
        k_safety * (self.l.len() as f64) * EPS * self.kappa
    }
    /// relative error bound for the code's v
    pub fn bound_v(&self, k_safety: f64) -> f64 {
        k_safety * EPS * self.cond_v
    }
}

pub fn lnx(xs: &[f64]) -> Vec<f64> {
    xs.iter().map(|v| v.ln()).collect()
}

/// helper: the standard extraction of the logged vectors of a sample
pub struct Logged {
    pub x_unscaled: Vec<f64>,
    pub x: Vec<f64>,
    pub u_trop: f64,
    pub v_trop: f64,
}

pub fn logged(run: &Run<f64>) -> Option<Logged> {
    Some(Logged {
        x_unscaled: run.log_vec("momtrop_feynman_parameter_no_rescaling")?,
        x: run.log_vec("momtrop_feynman_parameter")?,
        u_trop: run.log_f64("momtrop_u_trop_no_rescaling")?,
        v_trop: run.log_f64("momtrop_v_trop_no_rescaling")?,
    })
}

pub fn ok_of(run: &Run<f64>) -> Option<&SampleOut<f64>> {
    match &run.outcome {
        Outcome::Ok(o) => Some(o),
        _ => None,
    }
}

#[allow(dead_code)]
fn unused() {
    let _ = Q::one();
}
