//! Workload generators: multigraphs, weights inside the convergence region, loop-momentum
//! routings, exact-in-f64 kinematics, hostile x-space points.
use crate::oracle::{int_rank, q, qf, qi, Uf, GO, Q};
use crate::run::GraphSpec;
use crate::util::Rng;
use num::{One, Signed, Zero};
use serde_json::{json, Value};

// ---------------------------------------------------------------------------------------
// topologies
// ---------------------------------------------------------------------------------------
pub fn named_topologies() -> Vec<(&'static str, Vec<(u8, u8)>)> {
    vec![
        ("tadpole", vec![(0, 0)]),
        ("rose2", vec![(0, 0), (0, 0)]),
        ("rose3", vec![(0, 0), (0, 0), (0, 0)]),
        ("bubble", vec![(0, 1), (0, 1)]),
        ("sunrise", vec![(0, 1), (0, 1), (0, 1)]),
        ("banana4", vec![(0, 1), (0, 1), (0, 1), (0, 1)]),
        ("banana5", vec![(0, 1), (1, 0), (0, 1), (1, 0), (0, 1)]),
        ("banana6", vec![(0, 1), (1, 0), (0, 1), (1, 0), (0, 1), (0, 1)]),
        ("triangle", vec![(0, 1), (1, 2), (2, 0)]),
        ("box", vec![(0, 1), (1, 2), (2, 3), (3, 0)]),
        ("pentagon", vec![(0, 1), (1, 2), (2, 3), (3, 4), (4, 0)]),
        ("double_triangle", vec![(0, 1), (1, 2), (2, 0), (2, 3), (3, 0)]),
        ("dunce_cap", vec![(0, 1), (0, 1), (1, 2), (2, 0)]),
        ("bubble_chain2", vec![(0, 1), (0, 1), (1, 2), (1, 2)]),
        ("bubble_chain3", vec![(0, 1), (0, 1), (1, 2), (1, 2), (2, 3), (2, 3)]),
        ("necklace3", vec![(0, 1), (0, 1), (1, 2), (1, 2), (2, 0), (2, 0)]),
        ("k4_mercedes", vec![(0, 1), (1, 2), (2, 0), (0, 3), (1, 3), (2, 3)]),
        ("ladder2", vec![(0, 1), (1, 2), (2, 3), (3, 0), (0, 2)]),
        ("ladder3", vec![(0, 1), (1, 2), (2, 3), (3, 4), (4, 5), (5, 0), (1, 4), (2, 5)]),
        ("wheel4", vec![(0, 1), (1, 2), (2, 3), (3, 0), (0, 4), (1, 4), (2, 4), (3, 4)]),
        ("tadpole_on_bubble", vec![(0, 1), (0, 1), (1, 1)]),
        ("triangle_with_selfloop", vec![(0, 1), (1, 2), (2, 0), (0, 0)]),
        ("kite", vec![(0, 1), (0, 1), (1, 2), (1, 2), (0, 2)]),
    ]
}

/// random connected multigraph with `loops` independent cycles and `ne` edges
/// (ne >= loops). `bridgeless`: ear construction; otherwise tree + extra edges.
pub fn random_connected(rng: &mut Rng, loops: usize, ne: usize, bridgeless: bool) -> Vec<(u8, u8)> {
    let mut edges: Vec<(u8, u8)> = vec![];
    if bridgeless && loops >= 1 {
        let mut nv: u8 = 1;
        edges.push((0, 0));
        let mut l = 1;
        while edges.len() < ne {
            let need_loops = loops - l;
            let room = ne - edges.len();
            let add_loop = need_loops > 0 && (room == need_loops || rng.chance(0.5));
            if add_loop {
                let a = rng.below(nv as usize) as u8;
                let b = if rng.chance(0.2) { a } else { rng.below(nv as usize) as u8 };
                edges.push((a, b));
                l += 1;
            } else if room > need_loops {
                // subdivide
                let i = rng.below(edges.len());
                let (a, b) = edges[i];
                let v = nv;
                nv += 1;
                edges[i] = (a, v);
                edges.push((v, b));
            } else {
                break;
            }
        }
    } else {
        let nv = (ne + 1 - loops).max(1);
        for v in 1..nv {
            let p = rng.below(v) as u8;
            edges.push((p, v as u8));
        }
        while edges.len() < ne {
            let a = rng.below(nv) as u8;
            let b = if rng.chance(0.15) { a } else { rng.below(nv) as u8 };
            edges.push((a, b));
        }
    }
    // random orientation and order
    for e in edges.iter_mut() {
        if rng.chance(0.5) {
            *e = (e.1, e.0);
        }
    }
    rng.shuffle(&mut edges);
    edges
}

/// arbitrary multigraph (possibly disconnected), for table/rejection checks
pub fn random_any(rng: &mut Rng, ne: usize, nvmax: usize) -> Vec<(u8, u8)> {
    let nv = 1 + rng.below(nvmax);
    let mut edges = vec![];
    for _ in 0..ne {
        let a = rng.below(nv) as u8;
        let b = if rng.chance(0.2) { a } else { rng.below(nv) as u8 };
        edges.push((a, b));
    }
    edges
}

pub fn vertices_of(edges: &[(u8, u8)]) -> Vec<u8> {
    let mut v: Vec<u8> = edges.iter().flat_map(|e| [e.0, e.1]).collect();
    v.sort();
    v.dedup();
    v
}

/// relabel vertices with arbitrary distinct u8 labels (0 and 255 favoured)
pub fn relabel(rng: &mut Rng, edges: &mut [(u8, u8)], externals: &mut [u8]) {
    let vs = {
        let mut v = vertices_of(edges);
        for x in externals.iter() {
            if !v.contains(x) {
                v.push(*x);
            }
        }
        v
    };
    let mut pool: Vec<u8> = (0..=255u8).collect();
    rng.shuffle(&mut pool);
    // favour extreme labels
    if rng.chance(0.5) {
        let i = pool.iter().position(|&x| x == 255).unwrap();
        pool.swap(0, i);
    }
    if rng.chance(0.5) {
        let i = pool.iter().position(|&x| x == 0).unwrap();
        pool.swap(1, i);
    }
    rng.shuffle(&mut pool[..vs.len().max(2)]);
    let map = |x: u8| pool[vs.iter().position(|&y| y == x).unwrap()];
    for e in edges.iter_mut() {
        *e = (map(e.0), map(e.1));
    }
    for x in externals.iter_mut() {
        *x = map(*x);
    }
}

// ---------------------------------------------------------------------------------------
// weight finder
// ---------------------------------------------------------------------------------------
pub const SNAP: f64 = 64.0; // weights are multiples of 2^-6

#[derive(Clone, Copy, Debug, PartialEq)]
pub enum WeightProfile {
    Comfortable,
    Mixed,
    NearMarginal,
    NonDyadic,
}

struct Lin {
    a: Vec<f64>,
    b: f64,
}

fn constraints(go: &GO) -> Vec<Lin> {
    let ne = go.ne;
    let full = go.full();
    let lg = go.cyclomatic(full) as f64;
    let hd = go.g.d as f64 / 2.0;
    let mut out = vec![];
    for m in 1..full {
        let l = go.cyclomatic(m) as f64;
        if go.is_spanning(m) {
            // D/2 (L(G)-L(m)) - sum_{e not in m} w_e > 0
            let a = (0..ne).map(|e| if m >> e & 1 == 0 { -1.0 } else { 0.0 }).collect();
            out.push(Lin { a, b: -hd * (lg - l) });
        } else {
            let a = (0..ne).map(|e| if m >> e & 1 == 1 { 1.0 } else { 0.0 }).collect();
            out.push(Lin { a, b: hd * l });
        }
    }
    // overall degree of divergence positive
    out.push(Lin { a: vec![1.0; ne], b: hd * lg });
    out
}

/// Find weights (multiples of 2^-6) with every generalised dod >= `margin` and the overall
/// dod >= margin. Returns None if the relaxation does not converge (topology infeasible
/// or unlucky start).
pub fn find_weights(rng: &mut Rng, g: &GraphSpec, profile: WeightProfile) -> Option<Vec<f64>> {
    let go = GO::new(g);
    let ne = go.ne;
    if ne == 0 || ne > 14 {
        return None;
    }
    let cons = constraints(&go);
    let margin_final = match profile {
        WeightProfile::Comfortable => 0.25,
        WeightProfile::Mixed => 0.0625,
        WeightProfile::NearMarginal => 1.0 / 64.0,
        WeightProfile::NonDyadic => 0.05,
    };
    let slack = ne as f64 / 128.0 + 1e-9;
    let margin = margin_final + slack;
    let (lo, hi) = match profile {
        WeightProfile::Comfortable => (0.5, 6.0),
        _ => (1.0 / 32.0, 6.0),
    };
    let mut w: Vec<f64> = (0..ne)
        .map(|_| match profile {
            WeightProfile::Comfortable => rng.range(0.8, 3.0),
            WeightProfile::Mixed => {
                if rng.chance(0.3) {
                    rng.range(0.1, 0.6)
                } else {
                    rng.range(0.5, 3.5)
                }
            }
            _ => rng.range(0.2, 2.5),
        })
        .collect();
    let mut ok = false;
    for _ in 0..600 {
        // most violated constraint
        let mut worst = 0.0;
        let mut wi = usize::MAX;
        for (i, c) in cons.iter().enumerate() {
            let v: f64 = c.a.iter().zip(&w).map(|(a, x)| a * x).sum::<f64>() - c.b;
            let def = margin - v;
            if def > worst {
                worst = def;
                wi = i;
            }
        }
        if wi == usize::MAX {
            ok = true;
            break;
        }
        let c = &cons[wi];
        let n2: f64 = c.a.iter().map(|a| a * a).sum();
        for e in 0..ne {
            w[e] += 1.2 * worst * c.a[e] / n2;
            w[e] = w[e].clamp(lo, hi);
        }
    }
    if !ok {
        return None;
    }
    let snap = |w: &[f64]| -> Vec<f64> { w.iter().map(|x| ((x * SNAP).round() / SNAP).max(1.0 / SNAP)).collect() };
    let mut ws = snap(&w);
    let verify = |ws: &[f64], margin: f64| -> bool {
        let g2 = GraphSpec { weights: ws.to_vec(), ..g.clone() };
        let go2 = GO::new(&g2);
        let om = go2.omega_table();
        let mq = q(margin);
        let full = go2.full() as usize;
        (1..full).all(|m| om[m] >= mq) && go2.dod() >= mq
    };
    if !verify(&ws, margin_final) {
        return None;
    }
    if profile == WeightProfile::NearMarginal {
        // push one random constraint towards its boundary
        for _ in 0..8 {
            let c = &cons[rng.below(cons.len())];
            let v: f64 = c.a.iter().zip(&ws).map(|(a, x)| a * x).sum::<f64>() - c.b;
            let target = [1.0 / 64.0, 1.0 / 32.0, 1.0 / 16.0, 0.125, 0.25][rng.below(5)];
            if v <= target {
                continue;
            }
            let n2: f64 = c.a.iter().map(|a| a * a).sum();
            let mut w2 = ws.clone();
            for e in 0..ne {
                w2[e] -= (v - target) * c.a[e] / n2;
            }
            let w2 = snap(&w2);
            if verify(&w2, 1.0 / 64.0) {
                ws = w2;
                break;
            }
        }
    }
    if profile == WeightProfile::NonDyadic {
        let w2: Vec<f64> = ws.iter().map(|x| x + rng.range(-0.01, 0.01) + 1.0 / 3.0 - 0.328125).collect();
        let w2: Vec<f64> = w2.iter().map(|x| x.max(0.02)).collect();
        if verify(&w2, 0.01) {
            ws = w2;
        }
    }
    Some(ws)
}

/// Move one weight so that one randomly chosen constraint (sub-dod or overall dod) has
/// slack exactly 2^-k (k in 20..50) while all others stay positive: a graph just inside the
/// convergence region, with exactly representable (dyadic) weights.
pub fn extreme_marginal(rng: &mut Rng, g: &GraphSpec) -> Option<(Vec<f64>, f64)> {
    extreme_marginal_with(rng, g, &[20, 30, 36, 40, 44], 44)
}

/// same with the slack drawn from 2^-k, k in `ks`, and weights on the grid 2^-grid_bits
pub fn extreme_marginal_with(rng: &mut Rng, g: &GraphSpec, ks: &[i32], grid_bits: i32) -> Option<(Vec<f64>, f64)> {
    let go = GO::new(g);
    let cons = constraints(&go);
    let ne = go.ne;
    for _ in 0..12 {
        let ci = rng.below(cons.len().saturating_sub(1).max(1));
        let c = &cons[ci];
        let v: f64 = c.a.iter().zip(&g.weights).map(|(a, x)| a * x).sum::<f64>() - c.b;
        // every weight stays a multiple of 2^-44 below 16, so that all partial sums the library
        // forms are exact in f64 (the graph the library sees is the graph the oracle sees)
        let k = *rng.pick(ks);
        let t = 2f64.powi(-k);
        if !(v > t) {
            continue;
        }
        let cand: Vec<usize> = (0..ne).filter(|e| c.a[*e] != 0.0).collect();
        if cand.is_empty() {
            continue;
        }
        let e = cand[rng.below(cand.len())];
        let mut w = g.weights.clone();
        w[e] -= c.a[e] * (v - t);
        if !(w[e] > 0.0) {
            continue;
        }
        let exact_grid = w.iter().all(|x| (x * 2f64.powi(grid_bits)).fract() == 0.0) && w.iter().sum::<f64>() < 16.0;
        if !exact_grid {
            continue;
        }
        let g2 = GraphSpec { weights: w.clone(), ..g.clone() };
        let go2 = GO::new(&g2);
        let om = go2.omega_table();
        let full = go2.full() as usize;
        if (1..full).all(|m| om[m].is_positive()) && go2.dod().is_positive() {
            let min = (1..full).map(|m| qf(&om[m])).fold(f64::INFINITY, f64::min);
            return Some((w, min));
        }
    }
    None
}

#[derive(Clone, Debug)]
pub struct GraphOpts {
    pub max_edges: usize,
    pub max_loops: usize,
    pub min_loops: usize,
    /// allowed numbers of external vertices are 0 or >= 2 unless this is set
    pub allow_single_external: bool,
    pub named_prob: f64,
    pub d_choices: Vec<usize>,
    /// probability of a graph with two connected components (externals in the first one)
    pub disconnected_prob: f64,
    /// probability of a graph with 7-9 loops (bananas, double bananas, roses), beyond max_loops
    pub big_loop_prob: f64,
    /// probability of adding 16..64 to the weight of the massive propagators
    pub heavy_massive_prob: f64,
}

impl GraphOpts {
    pub fn std(max_edges: usize) -> Self {
        GraphOpts {
            max_edges,
            max_loops: 5,
            min_loops: 1,
            allow_single_external: false,
            named_prob: 0.3,
            d_choices: vec![1, 2, 3, 4, 5, 6],
            disconnected_prob: 0.0,
            big_loop_prob: 0.0,
            heavy_massive_prob: 0.06,
        }
    }
}

/// connected multigraph + D + masses + externals (all touched) + weights inside the
/// convergence region (every sub-dod > 0 and overall dod > 0). Retries internally.
pub fn accepted_graph(rng: &mut Rng, o: &GraphOpts) -> Option<(GraphSpec, String)> {
    for _ in 0..40 {
        let (name, mut edges): (String, Vec<(u8, u8)>) = if rng.chance(o.big_loop_prob) {
            let k = rng.below(5);
            let par = |a: u8, b: u8, n: usize| -> Vec<(u8, u8)> { (0..n).map(|i| if i % 2 == 0 { (a, b) } else { (b, a) }).collect() };
            match k {
                0 => ("banana8".to_string(), par(0, 1, 8)),
                1 => ("banana9".to_string(), par(0, 1, 9)),
                2 => ("banana10".to_string(), par(0, 1, 10)),
                3 => ("double_banana5+4".to_string(), [par(0, 1, 5), par(1, 2, 4)].concat()),
                _ => ("rose7_on_bubble".to_string(), [par(0, 1, 2), (0..6).map(|_| (1u8, 1u8)).collect()].concat()),
            }
        } else if rng.chance(o.named_prob) {
            let all = named_topologies();
            let cands: Vec<_> = all
                .into_iter()
                .filter(|(_, e)| {
                    let l = e.len() + 1 - vertices_of(e).len();
                    e.len() <= o.max_edges && l <= o.max_loops && l >= o.min_loops
                })
                .collect();
            if cands.is_empty() {
                continue;
            }
            let (n, e) = cands[rng.below(cands.len())].clone();
            (n.to_string(), e)
        } else {
            let loops = o.min_loops + rng.below(o.max_loops - o.min_loops + 1);
            let ne_min = loops.max(1);
            if ne_min > o.max_edges {
                continue;
            }
            let ne = ne_min + rng.below(o.max_edges - ne_min + 1);
            let bridgeless = rng.chance(0.8);
            (format!("random(L={},E={},{})", loops, ne, if bridgeless { "ear" } else { "tree+" }), random_connected(rng, loops, ne, bridgeless))
        };
        let vs = vertices_of(&edges);
        // optional second component (small), externals stay in the first one
        let mut name = name;
        let mut second: Vec<(u8, u8)> = vec![];
        if rng.chance(o.disconnected_prob) && edges.len() + 1 <= o.max_edges {
            let room = (o.max_edges - edges.len()).min(3);
            let l2 = 1 + rng.below(room.min(2));
            let ne2 = l2 + rng.below(room - l2 + 1);
            let l1 = edges.len() + 1 - vs.len();
            if l1 + l2 <= o.max_loops.max(2) {
                second = random_connected(rng, l2, ne2.max(l2), true).into_iter().map(|(a, b)| (a + 100, b + 100)).collect();
                name = format!("{}+component(L={},E={})", name, l2, second.len());
            }
        }
        // externals
        let mut ext: Vec<u8> = vec![];
        let r = rng.f();
        let n_ext = if vs.len() == 1 {
            if o.allow_single_external && r < 0.3 {
                1
            } else {
                0
            }
        } else if r < 0.2 {
            0
        } else if o.allow_single_external && r < 0.3 {
            1
        } else {
            2 + rng.below((vs.len() - 1).min(3))
        };
        let mut pool = vs.clone();
        rng.shuffle(&mut pool);
        ext.extend(pool.iter().take(n_ext));
        edges.extend(second);
        let ne = edges.len();
        let r = rng.f();
        let massive: Vec<bool> = if r < 0.3 {
            vec![false; ne]
        } else if r < 0.55 {
            vec![true; ne]
        } else {
            (0..ne).map(|_| rng.chance(0.5)).collect()
        };
        if rng.chance(0.5) {
            relabel(rng, &mut edges, &mut ext);
        }
        let d = *rng.pick(&o.d_choices);
        let mut g = GraphSpec { edges, weights: vec![1.0; ne], massive, externals: ext, d };
        let profile = match rng.below(10) {
            0..=2 => WeightProfile::Comfortable,
            3..=5 => WeightProfile::Mixed,
            6..=8 => WeightProfile::NearMarginal,
            _ => WeightProfile::NonDyadic,
        };
        if let Some(w) = find_weights(rng, &g, profile) {
            g.weights = w;
            let mut name = format!("{}:{:?}", name, profile);
            if rng.chance(o.heavy_massive_prob) && g.massive.iter().any(|m| *m) {
                // heavier massive propagators leave every sub-dod of the region unchanged or larger
                let h = *rng.pick(&[16.0, 24.0, 40.0, 64.0]);
                let one = rng.chance(0.5);
                let first = g.massive.iter().position(|m| *m).unwrap();
                let mut total: f64 = qf(&GO::new(&g).dod());
                for e in 0..ne {
                    if g.massive[e] && (!one || e == first) && total + h < 95.0 {
                        g.weights[e] += h;
                        total += h;
                    }
                }
                name.push_str("+heavy_massive");
            }
            return Some((g, name));
        }
    }
    None
}

/// canonical-ish key of a graph for distinct counting (edge multiset with sorted endpoints,
/// masses, weights, externals, D)
pub fn graph_key(g: &GraphSpec) -> u64 {
    let mut items: Vec<(u8, u8, bool, u64)> = (0..g.ne())
        .map(|e| {
            let (a, b) = g.edges[e];
            (a.min(b), a.max(b), g.massive[e], g.weights[e].to_bits())
        })
        .collect();
    items.sort();
    let mut ext = g.externals.clone();
    ext.sort();
    crate::util::hash_str(&format!("{:?}|{:?}|{}", items, ext, g.d))
}

// ---------------------------------------------------------------------------------------
// routing (loop signature)
// ---------------------------------------------------------------------------------------
/// Fundamental cycle basis of a random spanning forest, then a random unimodular change of
/// basis. Returns E x L matrix. The result is verified (rank L, incidence * s = 0).
pub fn routing(rng: &mut Rng, g: &GraphSpec, mix: usize) -> Vec<Vec<isize>> {
    let ne = g.ne();
    let mut order: Vec<usize> = (0..ne).collect();
    rng.shuffle(&mut order);
    let mut uf = Uf::new();
    let mut in_tree = vec![false; ne];
    for &e in &order {
        let (a, b) = g.edges[e];
        if a != b && uf.union(a, b) {
            in_tree[e] = true;
        }
    }
    let chords: Vec<usize> = (0..ne).filter(|&e| !in_tree[e]).collect();
    let nl = chords.len();
    let mut s = vec![vec![0isize; nl]; ne];
    for (l, &c) in chords.iter().enumerate() {
        s[c][l] = 1;
        let (a, b) = g.edges[c];
        if a == b {
            continue;
        }
        // tree path from b back to a
        let path = tree_path(g, &in_tree, b, a);
        for (e, dir) in path {
            s[e][l] = dir;
        }
    }
    // unimodular mixing
    for _ in 0..mix {
        if nl < 2 {
            if nl == 1 && rng.chance(0.3) {
                for e in 0..ne {
                    s[e][0] = -s[e][0];
                }
            }
            break;
        }
        let i = rng.below(nl);
        let mut j = rng.below(nl);
        if i == j {
            j = (j + 1) % nl;
        }
        match rng.below(3) {
            0 => {
                let c: isize = if rng.chance(0.5) { 1 } else { -1 };
                let ok = (0..ne).all(|e| (s[e][i] + c * s[e][j]).abs() <= 3);
                if ok {
                    for e in 0..ne {
                        s[e][i] += c * s[e][j];
                    }
                }
            }
            1 => {
                for e in 0..ne {
                    let t = s[e][i];
                    s[e][i] = s[e][j];
                    s[e][j] = t;
                }
            }
            _ => {
                for e in 0..ne {
                    s[e][i] = -s[e][i];
                }
            }
        }
    }
    assert!(check_routing(g, &s), "harness: generated routing is not a cycle basis");
    s
}

fn tree_path(g: &GraphSpec, in_tree: &[bool], from: u8, to: u8) -> Vec<(usize, isize)> {
    // DFS over tree edges
    fn dfs(g: &GraphSpec, in_tree: &[bool], cur: u8, to: u8, used: &mut Vec<bool>, path: &mut Vec<(usize, isize)>) -> bool {
        if cur == to {
            return true;
        }
        for e in 0..g.ne() {
            if !in_tree[e] || used[e] {
                continue;
            }
            let (a, b) = g.edges[e];
            let (next, dir) = if a == cur {
                (b, 1)
            } else if b == cur {
                (a, -1)
            } else {
                continue;
            };
            used[e] = true;
            path.push((e, dir));
            if dfs(g, in_tree, next, to, used, path) {
                return true;
            }
            path.pop();
        }
        false
    }
    let mut used = vec![false; g.ne()];
    let mut path = vec![];
    let ok = dfs(g, in_tree, from, to, &mut used, &mut path);
    assert!(ok, "harness: no tree path");
    path
}

/// rank = cyclomatic number and momentum conservation at every vertex
pub fn check_routing(g: &GraphSpec, s: &[Vec<isize>]) -> bool {
    let go = GO::new(g);
    let nl = go.cyclomatic(go.full());
    if s.len() != g.ne() || s.iter().any(|r| r.len() != nl) {
        return false;
    }
    if nl == 0 {
        return true;
    }
    for v in vertices_of(&g.edges) {
        for l in 0..nl {
            let mut t = 0;
            for e in 0..g.ne() {
                let (a, b) = g.edges[e];
                if a == v {
                    t += s[e][l];
                }
                if b == v {
                    t -= s[e][l];
                }
            }
            if t != 0 {
                return false;
            }
        }
    }
    // rank over the columns
    let cols: Vec<Vec<isize>> = (0..nl).map(|l| (0..g.ne()).map(|e| s[e][l]).collect()).collect();
    int_rank(&cols) == nl
}

// ---------------------------------------------------------------------------------------
// kinematics (exactly representable: multiples of 1/8)
// ---------------------------------------------------------------------------------------
#[derive(Clone, Debug)]
pub struct Kin {
    /// momentum entering at each declared external vertex (order of g.externals), D comps
    pub ext_mom: Vec<Vec<f64>>,
    pub masses: Vec<Option<f64>>,
    pub shifts: Vec<Vec<f64>>,
    /// loop-momentum offsets that were added to the shifts
    pub offsets: Vec<Vec<f64>>,
}

impl Kin {
    pub fn describe(&self) -> Value {
        json!({"ext_mom": self.ext_mom, "masses": self.masses, "shifts": self.shifts, "offsets": self.offsets})
    }
    pub fn ext_q(&self) -> Vec<Vec<Q>> {
        self.ext_mom.iter().map(|v| v.iter().map(|x| q(*x)).collect()).collect()
    }
    pub fn masses_q(&self) -> Vec<Option<Q>> {
        self.masses.iter().map(|m| m.map(q)).collect()
    }
}

fn eighth(rng: &mut Rng, kmax: i64) -> f64 {
    rng.int(-kmax, kmax) as f64 / 8.0
}

/// generic external momenta: sum zero, every proper non-empty subset has non-zero total
pub fn external_momenta(rng: &mut Rng, n: usize, d: usize) -> Vec<Vec<f64>> {
    if n == 0 {
        return vec![];
    }
    if n == 1 {
        return vec![vec![0.0; d]];
    }
    loop {
        let mut p: Vec<Vec<f64>> = (0..n - 1).map(|_| (0..d).map(|_| eighth(rng, 40)).collect()).collect();
        let last: Vec<f64> = (0..d).map(|k| -p.iter().map(|v| v[k]).sum::<f64>()).collect();
        p.push(last);
        let mut ok = true;
        for m in 1..(1u32 << n) - 1 {
            let tot: Vec<f64> = (0..d).map(|k| (0..n).filter(|i| m >> i & 1 == 1).map(|i| p[i][k]).sum()).collect();
            if tot.iter().all(|x| *x == 0.0) {
                ok = false;
                break;
            }
        }
        if ok {
            return p;
        }
    }
}

/// Shifts conserving momentum at every vertex for external momenta entering at g.externals,
/// plus sum_l s_el c_l for loop-momentum offsets c_l. Requires all externals touched and in
/// one connected component (checked; returns None otherwise).
pub fn kinematics(rng: &mut Rng, g: &GraphSpec, sig: &[Vec<isize>], max_offset_eighths: i64, zero_mass_some: bool) -> Option<Kin> {
    let ne = g.ne();
    let d = g.d;
    let vs = vertices_of(&g.edges);
    for x in &g.externals {
        if !vs.contains(x) {
            return None;
        }
    }
    let ext_mom = external_momenta(rng, g.externals.len(), d);
    // spanning forest
    let mut uf = Uf::new();
    let mut in_tree = vec![false; ne];
    let mut order: Vec<usize> = (0..ne).collect();
    rng.shuffle(&mut order);
    for &e in &order {
        let (a, b) = g.edges[e];
        if a != b && uf.union(a, b) {
            in_tree[e] = true;
        }
    }
    if g.externals.len() >= 2 {
        let r0 = uf.find(g.externals[0]);
        if g.externals.iter().any(|&x| uf.find(x) != r0) {
            return None;
        }
    }
    let pv = |v: u8| -> Vec<f64> {
        match g.externals.iter().position(|&x| x == v) {
            Some(i) => ext_mom[i].clone(),
            None => vec![0.0; d],
        }
    };
    let mut shifts = vec![vec![0.0; d]; ne];
    // for each tree edge: removing it splits its tree in two; the flow from the side
    // containing edges[e].0 to the side containing edges[e].1 is the external momentum
    // entering the first side.
    for e in 0..ne {
        if !in_tree[e] {
            continue;
        }
        let mut uf2 = Uf::new();
        for f in 0..ne {
            if in_tree[f] && f != e {
                uf2.union(g.edges[f].0, g.edges[f].1);
            }
        }
        let side = uf2.find(g.edges[e].0);
        let mut tot = vec![0.0; d];
        for &v in &vs {
            if uf2.find(v) == side {
                let p = pv(v);
                for k in 0..d {
                    tot[k] += p[k];
                }
            }
        }
        shifts[e] = tot;
    }
    // verify conservation: P_v + sum_in p - sum_out p = 0
    for &v in &vs {
        let p = pv(v);
        for k in 0..d {
            let mut t = p[k];
            for e in 0..ne {
                let (a, b) = g.edges[e];
                if b == v {
                    t += shifts[e][k];
                }
                if a == v {
                    t -= shifts[e][k];
                }
            }
            assert!(t == 0.0, "harness: shifts do not conserve momentum");
        }
    }
    let nl = sig.first().map(|r| r.len()).unwrap_or(0);
    let offsets: Vec<Vec<f64>> = (0..nl)
        .map(|_| (0..d).map(|_| if max_offset_eighths > 0 { eighth(rng, max_offset_eighths) } else { 0.0 }).collect())
        .collect();
    for e in 0..ne {
        for l in 0..nl {
            for k in 0..d {
                shifts[e][k] += sig[e][l] as f64 * offsets[l][k];
            }
        }
    }
    let masses: Vec<Option<f64>> = (0..ne)
        .map(|e| {
            if g.massive[e] {
                // mostly k/8; occasionally very light or very heavy (still exact in the oracle)
                match rng.below(40) {
                    0 => Some(2f64.powi(-20)),
                    1 => Some(2f64.powi(12)),
                    _ => Some(rng.int(1, 24) as f64 / 8.0),
                }
            } else if zero_mass_some && rng.chance(0.3) {
                Some(0.0)
            } else {
                None
            }
        })
        .collect();
    Some(Kin { ext_mom, masses, shifts, offsets })
}

// ---------------------------------------------------------------------------------------
// sector machinery: exact edge-choice intervals from the oracle's J and omega
// ---------------------------------------------------------------------------------------
pub struct Sector {
    pub ne: usize,
    pub om: Vec<Q>,
    pub j: Vec<Q>,
    /// cumulative boundaries per mask, precomputed
    pub iv: Vec<Vec<(usize, Q, Q)>>,
}

#[derive(Clone, Debug)]
pub struct Walk {
    /// removal order s_1..s_E
    pub order: Vec<usize>,
    /// graph after j removals (mask), j = 1..E
    pub after: Vec<u64>,
    /// xi_j drawn after the j-th removal (j = 1..E-1)
    pub xi: Vec<f64>,
    /// smallest relative distance of a consumed u to a cumulative boundary
    pub min_boundary_dist: f64,
    /// number of coordinates consumed by the sector stage
    pub consumed: usize,
    /// the u consumed at each step (None for the single-edge step)
    pub us: Vec<Option<f64>>,
    /// true if some u was >= the total (no edge in exact arithmetic)
    pub fell_through: bool,
}

impl Sector {
    pub fn new(go: &GO) -> Option<Sector> {
        let om = go.omega_table();
        let j = go.j_table(&om)?;
        let mut s = Sector { ne: go.ne, om, j, iv: vec![] };
        let n = 1usize << go.ne;
        let mut iv = Vec::with_capacity(n);
        for m in 0..n {
            iv.push(if m == 0 { vec![] } else { s.compute_intervals(m as u64) });
        }
        s.iv = iv;
        Some(s)
    }
    /// exact probabilities p_e of removing e from `mask`, in index order
    pub fn probs(&self, mask: u64) -> Vec<(usize, Q)> {
        let m = mask as usize;
        (0..self.ne)
            .filter(|e| m >> e & 1 == 1)
            .map(|e| {
                let sub = m ^ (1 << e);
                (e, &self.j[sub] / &self.j[m] / &self.om[sub])
            })
            .collect()
    }
    /// cumulative boundaries (edge, c_lo, c_hi)
    pub fn intervals(&self, mask: u64) -> &Vec<(usize, Q, Q)> {
        &self.iv[mask as usize]
    }
    fn compute_intervals(&self, mask: u64) -> Vec<(usize, Q, Q)> {
        let mut c = Q::zero();
        self.probs(mask)
            .into_iter()
            .map(|(e, p)| {
                let lo = c.clone();
                c += p;
                (e, lo, c.clone())
            })
            .collect()
    }
    /// a u strictly inside the interval of `edge` at `mask` (None if the interval is too
    /// narrow for f64)
    pub fn u_for(&self, mask: u64, edge: usize, rng: &mut Rng) -> Option<f64> {
        for (e, lo, hi) in self.intervals(mask) {
            if *e == edge {
                let (l, h) = (qf(lo), qf(hi));
                let t = rng.range(0.25, 0.75);
                let u = l + (h - l) * t;
                let uq = q(u);
                let rel = 1e-6;
                if uq > lo + (hi - lo) * q(rel) && uq < hi - (hi - lo) * q(rel) && u < 1.0 && u > 0.0 {
                    return Some(u);
                }
                return None;
            }
        }
        None
    }
    /// predicted walk for an x-space point (exact arithmetic for the comparisons)
    pub fn walk(&self, x: &[f64]) -> Walk {
        let mut mask: u64 = (1u64 << self.ne) - 1;
        let mut idx = 0;
        let mut w = Walk {
            order: vec![],
            after: vec![],
            xi: vec![],
            min_boundary_dist: f64::INFINITY,
            consumed: 0,
            us: vec![],
            fell_through: false,
        };
        while mask != 0 {
            let edge;
            if mask.count_ones() == 1 {
                edge = mask.trailing_zeros() as usize;
                w.us.push(None);
            } else {
                let u = x[idx];
                idx += 1;
                w.us.push(Some(u));
                let uq = q(u);
                let iv = self.intervals(mask);
                let mut chosen = None;
                for (e, _lo, hi) in iv {
                    let dist = qf(&((&uq - hi).abs() / hi));
                    if dist < w.min_boundary_dist {
                        w.min_boundary_dist = dist;
                    }
                    if chosen.is_none() && *hi >= uq {
                        chosen = Some(*e);
                    }
                }
                match chosen {
                    Some(e) => edge = e,
                    None => {
                        w.fell_through = true;
                        edge = iv.last().unwrap().0;
                    }
                }
            }
            mask ^= 1 << edge;
            w.order.push(edge);
            w.after.push(mask);
            if mask != 0 {
                w.xi.push(x[idx]);
                idx += 1;
            }
        }
        w.consumed = idx;
        w
    }
}

// ---------------------------------------------------------------------------------------
// x-space points
// ---------------------------------------------------------------------------------------
#[derive(Clone, Copy, Debug, PartialEq)]
pub enum XiMode {
    Uniform,
    Benign,
    /// 10^-U(0,k) or 1-10^-U(0,k)
    Corner(f64),
    /// values below the f64 epsilon down to the smallest subnormal (still inside (0,1))
    Tiny,
}

pub fn draw_xi(rng: &mut Rng, mode: XiMode) -> f64 {
    match mode {
        XiMode::Uniform => rng.fo(),
        XiMode::Benign => rng.range(0.2, 0.8),
        XiMode::Tiny => match rng.below(8) {
            0 => 5e-324,
            1 => f64::MIN_POSITIVE,
            2 => 2f64.powi(-53),
            3 => 2f64.powi(-60),
            4 => 1e-17,
            5 => 10f64.powf(-rng.range(16.0, 40.0)),
            6 => 10f64.powf(-rng.range(40.0, 300.0)),
            _ => rng.range(0.3, 0.9),
        },
        XiMode::Corner(k) => {
            let r = rng.f();
            if r < 0.45 {
                10f64.powf(-rng.range(0.0, k))
            } else if r < 0.7 {
                let v = 1.0 - 10f64.powf(-rng.range(0.0, k.min(15.0)));
                if v <= 0.0 {
                    0.5
                } else {
                    v
                }
            } else {
                rng.fo()
            }
        }
    }
}

pub fn draw_lambda_coord(rng: &mut Rng, hostile: bool) -> f64 {
    if !hostile {
        return rng.fo();
    }
    let r = rng.f();
    if r < 0.5 {
        rng.fo()
    } else if r < 0.66 {
        10f64.powf(-rng.range(0.0, 12.0))
    } else if r < 0.82 {
        1.0 - 10f64.powf(-rng.range(0.0, 12.0))
    } else if r < 0.9 {
        rng.range(0.4, 0.6)
    } else {
        // the very ends of (0,1)
        *rng.pick(&[1.0 - 2f64.powi(-53), 1.0 - 1e-15, 1e-18, 1e-30, 2f64.powi(-53), 1e-100])
    }
}

pub fn draw_gauss_pair(rng: &mut Rng, hostile: bool) -> (f64, f64) {
    if !hostile {
        return (rng.fo(), rng.f());
    }
    let a = match rng.below(4) {
        0 => 10f64.powf(-rng.range(0.0, 300.0)).max(f64::MIN_POSITIVE),
        1 => 1.0 - 10f64.powf(-rng.range(0.0, 15.9)),
        _ => rng.fo(),
    };
    let a = if a <= 0.0 || a >= 1.0 { 0.5 } else { a };
    let b = match rng.below(4) {
        0 => {
            let base = rng.below(9) as f64 / 8.0;
            let v = crate::util::ulps(base, rng.int(-2, 2) as i32);
            if (0.0..1.0).contains(&v) {
                v
            } else {
                0.0
            }
        }
        _ => rng.f(),
    };
    (a, b)
}

/// Full x-space point: sector part either uniform u's or directed to a random/explicit
/// order via the exact intervals.
pub fn xpoint(rng: &mut Rng, sec: &Sector, dim: usize, xi_mode: XiMode, order: Option<&[usize]>, hostile_tail: bool) -> Option<Vec<f64>> {
    let ne = sec.ne;
    let mut x = Vec::with_capacity(dim);
    let mut mask: u64 = (1u64 << ne) - 1;
    let mut step = 0;
    while mask != 0 {
        let edge;
        if mask.count_ones() == 1 {
            edge = mask.trailing_zeros() as usize;
        } else {
            match order {
                Some(o) => {
                    edge = o[step];
                    x.push(sec.u_for(mask, edge, rng)?);
                }
                None => {
                    let u = rng.f();
                    x.push(u);
                    let uq = q(u);
                    let iv = sec.intervals(mask);
                    edge = iv.iter().find(|(_, _, hi)| *hi >= uq).map(|t| t.0).unwrap_or(iv.last().unwrap().0);
                }
            }
        }
        mask ^= 1 << edge;
        step += 1;
        if mask != 0 {
            x.push(draw_xi(rng, xi_mode));
        }
    }
    debug_assert!(x.len() == 2 * ne - 2 || ne == 1);
    x.push(draw_lambda_coord(rng, hostile_tail));
    while x.len() + 1 < dim {
        let (a, b) = draw_gauss_pair(rng, hostile_tail);
        x.push(a);
        x.push(b);
    }
    while x.len() < dim {
        x.push(rng.fo());
    }
    Some(x)
}

pub fn random_order(rng: &mut Rng, ne: usize) -> Vec<usize> {
    let mut o: Vec<usize> = (0..ne).collect();
    rng.shuffle(&mut o);
    o
}

/// all permutations of 0..n (n <= 6)
pub fn permutations(n: usize) -> Vec<Vec<usize>> {
    fn rec(cur: &mut Vec<usize>, used: &mut Vec<bool>, n: usize, out: &mut Vec<Vec<usize>>) {
        if cur.len() == n {
            out.push(cur.clone());
            return;
        }
        for i in 0..n {
            if !used[i] {
                used[i] = true;
                cur.push(i);
                rec(cur, used, n, out);
                cur.pop();
                used[i] = false;
            }
        }
    }
    let mut out = vec![];
    rec(&mut vec![], &mut vec![false; n], n, &mut out);
    out
}

#[allow(dead_code)]
pub fn unused(_: &Q) -> Q {
    let _ = (qi(0), Q::one(), Q::zero().is_negative());
    Q::zero()
}

// ---------------------------------------------------------------------------------------
// arbitrary graphs for the table / rejection checks
// ---------------------------------------------------------------------------------------
/// Any multigraph the quantifier of C03/C05 allows: self-loops, parallel edges, several
/// components, arbitrary labels, externals on a strict subset / untouched by edges /
/// duplicated, any mass pattern, D=1..6; weights from the finder, or unfiltered.
pub fn any_graph(rng: &mut Rng, emax: usize) -> (GraphSpec, String) {
    let ne = 1 + rng.below(emax);
    let mut edges = match rng.below(4) {
        0 => random_any(rng, ne, 6),
        1 => {
            // two components
            let n1 = 1 + rng.below(ne);
            let mut e1 = random_any(rng, n1, 3);
            let e2: Vec<(u8, u8)> = random_any(rng, ne - n1, 3).into_iter().map(|(a, b)| (a + 10, b + 10)).collect();
            e1.extend(e2);
            e1
        }
        2 => {
            let all = named_topologies();
            let c: Vec<_> = all.into_iter().filter(|(_, e)| e.len() <= emax).collect();
            c[rng.below(c.len())].1.clone()
        }
        _ => {
            let loops = rng.below(ne.min(5) + 1);
            let bl = rng.chance(0.6);
            random_connected(rng, loops, ne.max(loops), bl)
        }
    };
    let ne = edges.len();
    let vs = vertices_of(&edges);
    let mut ext: Vec<u8> = vec![];
    let mut pool = vs.clone();
    rng.shuffle(&mut pool);
    let n_ext = rng.below(vs.len().min(4) + 1);
    ext.extend(pool.iter().take(n_ext));
    let mut desc = String::new();
    if rng.chance(0.1) {
        // an external vertex no edge touches
        ext.push(77);
        desc.push_str("+untouched_external");
    }
    if rng.chance(0.05) && !ext.is_empty() {
        let d = ext[0];
        ext.push(d);
        desc.push_str("+duplicate_external");
    }
    let r = rng.f();
    let massive: Vec<bool> = if r < 0.3 {
        vec![false; ne]
    } else if r < 0.5 {
        vec![true; ne]
    } else {
        (0..ne).map(|_| rng.chance(0.5)).collect()
    };
    if rng.chance(0.5) {
        let has77 = ext.contains(&77) && !vs.contains(&77);
        relabel(rng, &mut edges, &mut ext);
        let _ = has77;
    }
    let d = 1 + rng.below(6);
    let mut g = GraphSpec { edges, weights: vec![1.0; ne], massive, externals: ext, d };
    let mode = rng.below(8);
    match mode {
        0..=3 => {
            let profile = [WeightProfile::Comfortable, WeightProfile::Mixed, WeightProfile::NearMarginal, WeightProfile::NonDyadic][rng.below(4)];
            if let Some(w) = find_weights(rng, &g, profile) {
                g.weights = w;
                desc.push_str(&format!("+finder:{:?}", profile));
                if rng.chance(0.2) {
                    if let Some((w2, min)) = extreme_marginal(rng, &g) {
                        g.weights = w2;
                        desc.push_str(&format!("+extreme_marginal(min_sub_dod={:e})", min));
                    }
                } else if rng.chance(0.12) && g.massive.iter().any(|m| *m) {
                    // a tiny positive sub-dod next to very heavy massive propagators (sums stay exact:
                    // grid 2^-30, magnitudes below 2^22)
                    if let Some((mut w2, min)) = extreme_marginal_with(rng, &g, &[22, 24, 27, 29], 30) {
                        let a = *rng.pick(&[12, 14, 16, 18]);
                        let nm = g.massive.iter().filter(|m| **m).count() as f64;
                        if nm * 2f64.powi(a) + 16.0 < 2f64.powi(22) {
                            for e in 0..ne {
                                if g.massive[e] {
                                    w2[e] += 2f64.powi(a);
                                }
                            }
                            g.weights = w2;
                            desc.push_str(&format!("+heavy_marginal(min_sub_dod={:e},heavy=2^{})", min, a));
                        }
                    }
                } else if rng.chance(0.35) {
                    // cross (or touch) the boundary of the convergence region by a dyadic step
                    let e = rng.below(ne);
                    let k = rng.int(-12, 12) as f64 / 64.0;
                    let nw = g.weights[e] + k;
                    if nw > 0.0 {
                        g.weights[e] = nw;
                        desc.push_str("+perturbed");
                    }
                }
            } else {
                g.weights = (0..ne).map(|_| rng.int(1, 256) as f64 / 64.0).collect();
                desc.push_str("+finder_failed:random_dyadic");
            }
        }
        4 | 5 => {
            g.weights = (0..ne).map(|_| rng.int(1, 256) as f64 / 64.0).collect();
            desc.push_str("+random_dyadic");
        }
        6 => {
            g.weights = (0..ne).map(|_| rng.range(0.05, 4.0)).collect();
            desc.push_str("+random_real");
        }
        _ => {
            // all-massive, every weight above D/2: always inside the region
            g.massive = vec![true; ne];
            let very = rng.chance(0.25);
            let lo = if rng.chance(0.5) { 128 } else { 1024 };
            g.weights = (0..ne).map(|_| d as f64 / 2.0 + if very { rng.int(lo, 1600) as f64 / 64.0 } else { rng.int(1, 128) as f64 / 64.0 }).collect();
            desc.push_str(if very { "+all_massive_very_heavy" } else { "+all_massive_heavy" });
        }
    }
    (g, desc)
}

/// a signature of the right shape for any graph (cycle basis of a spanning forest)
pub fn any_signature(rng: &mut Rng, g: &GraphSpec) -> Vec<Vec<isize>> {
    routing(rng, g, 2)
}
