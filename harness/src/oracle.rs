//! Exact reference models, written from the textbook definitions over edge lists with
//! union-find and BigRational arithmetic. Nothing here looks at momtrop's table or uses its
//! algorithms (bit-mask tables are only used to *enumerate* subsets).
use crate::run::GraphSpec;
use num::bigint::BigInt;
use num::rational::BigRational;
use num::{One, Signed, ToPrimitive, Zero};

pub type Q = BigRational;

pub fn q(x: f64) -> Q {
    BigRational::from_float(x).unwrap_or_else(|| panic!("harness: non-finite float in exact oracle: {}", x))
}
pub fn qi(i: i64) -> Q {
    BigRational::from_integer(BigInt::from(i))
}
pub fn qr(n: i64, d: i64) -> Q {
    BigRational::new(BigInt::from(n), BigInt::from(d))
}
pub fn qf(x: &Q) -> f64 {
    x.to_f64().unwrap_or(f64::NAN)
}
pub fn qabs(x: &Q) -> Q {
    x.abs()
}

// ---------------------------------------------------------------------------------------
// union-find over u8 labels
// ---------------------------------------------------------------------------------------
pub struct Uf {
    p: [u16; 256],
}
impl Uf {
    pub fn new() -> Self {
        let mut p = [0u16; 256];
        for (i, x) in p.iter_mut().enumerate() {
            *x = i as u16;
        }
        Uf { p }
    }
    pub fn find(&mut self, a: u8) -> u8 {
        let mut x = a as usize;
        while self.p[x] as usize != x {
            let g = self.p[self.p[x] as usize];
            self.p[x] = g;
            x = g as usize;
        }
        x as u8
    }
    /// returns true if a and b were in different sets
    pub fn union(&mut self, a: u8, b: u8) -> bool {
        let (ra, rb) = (self.find(a), self.find(b));
        if ra == rb {
            false
        } else {
            self.p[ra as usize] = rb as u16;
            true
        }
    }
}

pub fn mask_edges(mask: u64, ne: usize) -> Vec<usize> {
    (0..ne).filter(|e| mask >> e & 1 == 1).collect()
}

// ---------------------------------------------------------------------------------------
// graph oracle
// ---------------------------------------------------------------------------------------
pub struct GO<'a> {
    pub g: &'a GraphSpec,
    pub ne: usize,
    pub w: Vec<Q>,
    pub half_d: Q,
}

impl<'a> GO<'a> {
    pub fn new(g: &'a GraphSpec) -> Self {
        GO { g, ne: g.edges.len(), w: g.weights.iter().map(|x| q(*x)).collect(), half_d: qr(g.d as i64, 2) }
    }
    pub fn full(&self) -> u64 {
        if self.ne == 64 {
            u64::MAX
        } else {
            (1u64 << self.ne) - 1
        }
    }
    /// (touched vertices, connected components) of an edge subset
    pub fn vc(&self, mask: u64) -> (usize, usize) {
        let mut uf = Uf::new();
        let mut seen = [false; 256];
        let mut nv = 0;
        let mut comps = 0;
        for e in 0..self.ne {
            if mask >> e & 1 == 0 {
                continue;
            }
            let (a, b) = self.g.edges[e];
            for v in [a, b] {
                if !seen[v as usize] {
                    seen[v as usize] = true;
                    nv += 1;
                    comps += 1;
                }
            }
            if uf.union(a, b) {
                comps -= 1;
            }
        }
        (nv, comps)
    }
    /// cyclomatic number: edges - touched vertices + connected components
    pub fn cyclomatic(&self, mask: u64) -> usize {
        let (nv, c) = self.vc(mask);
        mask.count_ones() as usize + c - nv
    }
    pub fn is_connected(&self, mask: u64) -> bool {
        self.vc(mask).1 == 1
    }
    /// mass-momentum spanning: contains every massive edge and has ONE connected component
    /// that touches every declared external vertex.
    pub fn is_spanning(&self, mask: u64) -> bool {
        for e in 0..self.ne {
            if self.g.massive[e] && mask >> e & 1 == 0 {
                return false;
            }
        }
        if mask == 0 {
            return false; // no component at all
        }
        let mut uf = Uf::new();
        let mut touched = [false; 256];
        for e in 0..self.ne {
            if mask >> e & 1 == 1 {
                let (a, b) = self.g.edges[e];
                uf.union(a, b);
                touched[a as usize] = true;
                touched[b as usize] = true;
            }
        }
        if self.g.externals.is_empty() {
            return true;
        }
        let mut root: Option<u8> = None;
        for &x in &self.g.externals {
            if !touched[x as usize] {
                return false;
            }
            let r = uf.find(x);
            match root {
                None => root = Some(r),
                Some(r0) => {
                    if r0 != r {
                        return false;
                    }
                }
            }
        }
        true
    }
    /// sum of weights - D/2 * loops (no spanning subtraction)
    pub fn plain_dod(&self, mask: u64) -> Q {
        let mut s = Q::zero();
        for e in 0..self.ne {
            if mask >> e & 1 == 1 {
                s += &self.w[e];
            }
        }
        s - &self.half_d * qi(self.cyclomatic(mask) as i64)
    }
    pub fn dod(&self) -> Q {
        self.plain_dod(self.full())
    }
    /// generalised degree of divergence
    pub fn omega(&self, mask: u64) -> Q {
        if mask == 0 {
            return Q::one();
        }
        let p = self.plain_dod(mask);
        if self.is_spanning(mask) {
            p - self.dod()
        } else {
            p
        }
    }
    pub fn omega_table(&self) -> Vec<Q> {
        (0..=self.full()).map(|m| self.omega(m)).collect()
    }
    /// exact J over all subsets (None if some needed omega is zero)
    pub fn j_table(&self, om: &[Q]) -> Option<Vec<Q>> {
        let n = 1usize << self.ne;
        let mut j: Vec<Q> = Vec::with_capacity(n);
        j.push(Q::one());
        for m in 1..n {
            let mut s = Q::zero();
            for e in 0..self.ne {
                if m >> e & 1 == 1 {
                    let sub = m ^ (1 << e);
                    if om[sub].is_zero() {
                        return None;
                    }
                    s += &j[sub] / &om[sub];
                }
            }
            j.push(s);
        }
        Some(j)
    }
    /// J(full) as a sum over all E! edge orderings of the product of inverse omegas
    pub fn j_by_permutations(&self, om: &[Q]) -> Q {
        fn rec(ne: usize, mask: usize, om: &[Q]) -> Q {
            if mask == 0 {
                return Q::one();
            }
            let mut s = Q::zero();
            for e in 0..ne {
                if mask >> e & 1 == 1 {
                    let sub = mask ^ (1 << e);
                    s += rec(ne, sub, om) / &om[sub];
                }
            }
            s
        }
        rec(self.ne, (1usize << self.ne) - 1, om)
    }
    pub fn accepted(&self, om: &[Q]) -> bool {
        let full = self.full() as usize;
        (1..full).all(|m| om[m].is_positive())
    }

    // ---------------- Symanzik structure ----------------
    /// all acyclic edge subsets with exactly `k` edges
    pub fn forests(&self, k: usize) -> Vec<u64> {
        let mut out = vec![];
        if k > self.ne {
            return out;
        }
        for m in 0..=self.full() {
            if m.count_ones() as usize != k {
                continue;
            }
            if self.cyclomatic(m) == 0 {
                out.push(m);
            }
        }
        out
    }
    pub fn num_vertices(&self) -> usize {
        self.vc(self.full()).0
    }
    pub fn num_components(&self) -> usize {
        self.vc(self.full()).1
    }
    /// maximal spanning forests (spanning trees when connected)
    pub fn spanning_trees(&self) -> Vec<u64> {
        let (nv, c) = self.vc(self.full());
        self.forests(nv - c)
    }
    /// forests with one more component; for each, the vertex set of one of the two trees
    /// of the component that was split.
    pub fn two_forests(&self) -> Vec<(u64, Vec<u8>)> {
        let (nv, c) = self.vc(self.full());
        if nv - c == 0 {
            return vec![];
        }
        let fs = self.forests(nv - c - 1);
        let mut full_uf = Uf::new();
        let mut verts: Vec<u8> = vec![];
        let mut seen = [false; 256];
        for e in 0..self.ne {
            let (a, b) = self.g.edges[e];
            full_uf.union(a, b);
            for v in [a, b] {
                if !seen[v as usize] {
                    seen[v as usize] = true;
                    verts.push(v);
                }
            }
        }
        let mut out = vec![];
        for m in fs {
            let mut uf = Uf::new();
            for e in 0..self.ne {
                if m >> e & 1 == 1 {
                    let (a, b) = self.g.edges[e];
                    uf.union(a, b);
                }
            }
            // find the component of G whose vertices lie in two different forest trees
            let mut side: Vec<u8> = vec![];
            'outer: for &v in &verts {
                for &w in &verts {
                    if full_uf.find(v) == full_uf.find(w) && uf.find(v) != uf.find(w) {
                        let r = uf.find(v);
                        side = verts.iter().copied().filter(|&z| uf.find(z) == r).collect();
                        break 'outer;
                    }
                }
            }
            out.push((m, side));
        }
        out
    }
}

// ---------------------------------------------------------------------------------------
// Symanzik polynomials for given kinematics
// ---------------------------------------------------------------------------------------
/// a monomial: exponent per edge
pub type Mono = Vec<u8>;

pub struct Symanzik {
    pub ne: usize,
    /// complement masks of spanning trees: U = sum of prod_{e in mask} x_e
    pub u_monos: Vec<u64>,
    /// F terms with exact coefficients (actual kinematics): (exponents, coefficient)
    pub f_terms: Vec<(Mono, Q)>,
    /// generic support of F (kinematics-free): exponents only
    pub f_generic: Vec<Mono>,
    pub n_trees: usize,
}

fn mono_of_mask(mask: u64, ne: usize) -> Mono {
    (0..ne).map(|e| (mask >> e & 1) as u8).collect()
}

impl Symanzik {
    /// `ext_mom`: external momentum entering at each declared external vertex (same order as
    /// g.externals), each with D components; `masses`: per edge.
    pub fn new(go: &GO, ext_mom: &[Vec<Q>], masses: &[Option<Q>]) -> Symanzik {
        let ne = go.ne;
        let full = go.full();
        let trees = go.spanning_trees();
        let u_monos: Vec<u64> = trees.iter().map(|t| full & !t).collect();
        let mut f_terms = vec![];
        let mut f_generic = vec![];
        let ext = &go.g.externals;
        for (m, side) in go.two_forests() {
            let comp = full & !m;
            let n_in = ext.iter().filter(|x| side.contains(x)).count();
            // which externals lie in the split component at all?  Only they matter.
            // generic support: both trees of the split component contain a declared external
            let mut uf = Uf::new();
            for e in 0..ne {
                let (a, b) = go.g.edges[e];
                uf.union(a, b);
            }
            let side_root = if side.is_empty() { None } else { Some(uf.find(side[0])) };
            let n_comp = ext.iter().filter(|&&x| Some(uf.find(x)) == side_root && touched(go, x)).count();
            let generic = n_in > 0 && n_in < n_comp;
            if generic {
                f_generic.push(mono_of_mask(comp, ne));
            }
            if !ext_mom.is_empty() {
                let d = ext_mom[0].len();
                let mut p = vec![Q::zero(); d];
                for (i, x) in ext.iter().enumerate() {
                    if side.contains(x) {
                        for k in 0..d {
                            p[k] += &ext_mom[i][k];
                        }
                    }
                }
                let p2: Q = p.iter().map(|c| c * c).fold(Q::zero(), |a, b| a + b);
                if !p2.is_zero() {
                    f_terms.push((mono_of_mask(comp, ne), p2));
                }
            }
        }
        for e in 0..ne {
            if go.g.massive[e] {
                for um in &u_monos {
                    let mut mono = mono_of_mask(*um, ne);
                    mono[e] += 1;
                    f_generic.push(mono);
                }
            }
            if let Some(Some(m)) = masses.get(e) {
                if !m.is_zero() {
                    let m2 = m * m;
                    for um in &u_monos {
                        let mut mono = mono_of_mask(*um, ne);
                        mono[e] += 1;
                        f_terms.push((mono, m2.clone()));
                    }
                }
            }
        }
        Symanzik { ne, n_trees: trees.len(), u_monos, f_terms, f_generic }
    }
    pub fn u_exact(&self, x: &[Q]) -> Q {
        let mut s = Q::zero();
        for m in &self.u_monos {
            let mut p = Q::one();
            for e in 0..self.ne {
                if m >> e & 1 == 1 {
                    p *= &x[e];
                }
            }
            s += p;
        }
        s
    }
    pub fn f_exact(&self, x: &[Q]) -> Q {
        let mut s = Q::zero();
        for (mono, c) in &self.f_terms {
            let mut p = c.clone();
            for e in 0..self.ne {
                for _ in 0..mono[e] {
                    p *= &x[e];
                }
            }
            s += p;
        }
        s
    }
    /// ln of the largest U monomial at x (f64 logs; x must be positive normal numbers)
    pub fn ln_u_trop(&self, lnx: &[f64]) -> f64 {
        self.u_monos
            .iter()
            .map(|m| (0..self.ne).filter(|e| m >> e & 1 == 1).map(|e| lnx[e]).sum::<f64>())
            .fold(f64::NEG_INFINITY, f64::max)
    }
    /// ln of the largest generic-support F monomial at x
    pub fn ln_f_trop_generic(&self, lnx: &[f64]) -> f64 {
        self.f_generic
            .iter()
            .map(|mono| (0..self.ne).map(|e| mono[e] as f64 * lnx[e]).sum::<f64>())
            .fold(f64::NEG_INFINITY, f64::max)
    }
    /// ln of the largest F monomial present with the actual kinematics
    pub fn ln_f_trop_actual(&self, lnx: &[f64]) -> f64 {
        self.f_terms
            .iter()
            .map(|(mono, _)| (0..self.ne).map(|e| mono[e] as f64 * lnx[e]).sum::<f64>())
            .fold(f64::NEG_INFINITY, f64::max)
    }
    pub fn c_min(&self) -> Option<Q> {
        self.f_terms.iter().map(|t| t.1.clone()).fold(None, |a: Option<Q>, b| match a {
            None => Some(b),
            Some(a) => Some(if b < a { b } else { a }),
        })
    }
    pub fn c_sum(&self) -> Q {
        self.f_terms.iter().map(|t| t.1.clone()).fold(Q::zero(), |a, b| a + b)
    }
}

fn touched(go: &GO, v: u8) -> bool {
    go.g.edges.iter().any(|e| e.0 == v || e.1 == v)
}

// ---------------------------------------------------------------------------------------
// exact linear algebra
// ---------------------------------------------------------------------------------------
pub type QM = Vec<Vec<Q>>;

pub fn qm_from_f64(a: &[Vec<f64>]) -> QM {
    a.iter().map(|r| r.iter().map(|x| q(*x)).collect()).collect()
}

pub fn qm_identity(n: usize) -> QM {
    (0..n).map(|i| (0..n).map(|j| if i == j { Q::one() } else { Q::zero() }).collect()).collect()
}

pub fn qm_mul(a: &QM, b: &QM) -> QM {
    let n = a.len();
    let m = b[0].len();
    let k = b.len();
    (0..n)
        .map(|i| (0..m).map(|j| (0..k).map(|t| &a[i][t] * &b[t][j]).fold(Q::zero(), |x, y| x + y)).collect())
        .collect()
}

pub fn qm_transpose(a: &QM) -> QM {
    let n = a.len();
    let m = a[0].len();
    (0..m).map(|j| (0..n).map(|i| a[i][j].clone()).collect()).collect()
}

/// determinant and inverse by Gauss-Jordan with exact pivoting; inverse None if singular
pub fn qm_det_inv(a: &QM) -> (Q, Option<QM>) {
    let n = a.len();
    let mut m: QM = a.clone();
    let mut inv = qm_identity(n);
    let mut det = Q::one();
    for c in 0..n {
        let mut piv = None;
        for r in c..n {
            if !m[r][c].is_zero() {
                piv = Some(r);
                break;
            }
        }
        let Some(p) = piv else {
            return (Q::zero(), None);
        };
        if p != c {
            m.swap(p, c);
            inv.swap(p, c);
            det = -det;
        }
        let pv = m[c][c].clone();
        det *= &pv;
        for j in 0..n {
            m[c][j] = &m[c][j] / &pv;
            inv[c][j] = &inv[c][j] / &pv;
        }
        for r in 0..n {
            if r != c && !m[r][c].is_zero() {
                let f = m[r][c].clone();
                for j in 0..n {
                    let t = &f * &m[c][j];
                    m[r][j] -= t;
                    let t2 = &f * &inv[c][j];
                    inv[r][j] -= t2;
                }
            }
        }
    }
    (det, Some(inv))
}

pub fn qm_frob2(a: &QM) -> Q {
    a.iter().flat_map(|r| r.iter()).map(|x| x * x).fold(Q::zero(), |x, y| x + y)
}

pub fn frob_f64(a: &QM) -> f64 {
    qf(&qm_frob2(a)).sqrt()
}

/// Frobenius condition number, rounded (slightly up)
pub fn kappa_f(a: &QM, inv: &QM) -> f64 {
    frob_f64(a) * frob_f64(inv) * (1.0 + 1e-12)
}

/// exact L = sum_e x_e s_e s_e^T
pub fn l_exact(x: &[Q], sig: &[Vec<isize>]) -> QM {
    let nl = sig[0].len();
    let mut l = vec![vec![Q::zero(); nl]; nl];
    for (e, xe) in x.iter().enumerate() {
        for i in 0..nl {
            if sig[e][i] == 0 {
                continue;
            }
            for j in 0..nl {
                let c = sig[e][i] * sig[e][j];
                if c != 0 {
                    l[i][j] += xe * qi(c as i64);
                }
            }
        }
    }
    l
}

/// integer rank of a matrix of isize (exact, via rationals)
pub fn int_rank(rows: &[Vec<isize>]) -> usize {
    if rows.is_empty() {
        return 0;
    }
    let mut m: Vec<Vec<Q>> = rows.iter().map(|r| r.iter().map(|x| qi(*x as i64)).collect()).collect();
    let nr = m.len();
    let nc = m[0].len();
    let mut rank = 0;
    for c in 0..nc {
        let mut piv = None;
        for r in rank..nr {
            if !m[r][c].is_zero() {
                piv = Some(r);
                break;
            }
        }
        let Some(p) = piv else { continue };
        m.swap(p, rank);
        let pv = m[rank][c].clone();
        for r in 0..nr {
            if r != rank && !m[r][c].is_zero() {
                let f = &m[r][c] / &pv;
                for j in 0..nc {
                    let t = &f * &m[rank][j];
                    m[r][j] -= t;
                }
            }
        }
        rank += 1;
        if rank == nr {
            break;
        }
    }
    rank
}

/// rigorous enclosure of sqrt(x) for x >= 0: returns (lo, hi) rationals with lo <= sqrt(x) <= hi
pub fn q_sqrt_enclosure(x: &Q) -> (Q, Q) {
    if x.is_zero() {
        return (Q::zero(), Q::zero());
    }
    let f = qf(x);
    if !f.is_finite() || f <= 0.0 || f < 1e-300 {
        // fall back to a wide but valid enclosure via Newton from above in rationals
        let mut hi = if x > &Q::one() { x.clone() } else { Q::one() };
        for _ in 0..200 {
            let next = (&hi + x / &hi) / qi(2);
            if next >= hi {
                break;
            }
            hi = next;
            // keep the size bounded
            if let Some(h) = hi.to_f64() {
                if h.is_finite() && h > 1e-300 {
                    let hq = q(h * (1.0 + 4.0 * f64::EPSILON));
                    if &hq * &hq >= *x {
                        hi = hq;
                    }
                }
            }
        }
        let lo = x / &hi;
        return (lo, hi);
    }
    let s = f.sqrt();
    let mut lo = q(s * (1.0 - 4.0 * f64::EPSILON));
    let mut hi = q(s * (1.0 + 4.0 * f64::EPSILON));
    // verify and widen if necessary
    let mut k = 0;
    while &lo * &lo > *x && k < 60 {
        lo = &lo * qr(999, 1000);
        k += 1;
    }
    k = 0;
    while &hi * &hi < *x && k < 60 {
        hi = &hi * qr(1001, 1000);
        k += 1;
    }
    (lo, hi)
}
