#!/bin/bash
# /verif/sanitize.sh <ID>   — sanitizer / Miri add-ons of the thorough tier.
# Runs the property's workload (reduced) under AddressSanitizer, ThreadSanitizer
# (-Zbuild-std) and Miri as applicable, one sanitizer per build, and merges what the tools
# observed into /verif/evidence/<ID>.json (coverage.sanitizers). MIRI-purity drives sample() on 1-, 2-,
# 4- (D=2) and 7-loop samplers from several threads.
# Exit 0: no report (or a tool could not be built: recorded as an inconclusive sub-step);
# exit 1 + "VIOLATION property=<ID> replay=<log>" if a sanitizer reported something.
set -u
HERE="$(cd "$(dirname "${BASH_SOURCE[0]}")" && pwd)"
ID="$1"
export CARGO_NET_OFFLINE=true
cd "$HERE/harness" || exit 0
TRIPLE=x86_64-unknown-linux-gnu
LOGDIR="$HERE/replays/sanitizer-$ID"
mkdir -p "$LOGDIR"
RESULTS="$LOGDIR/results.jsonl"; : > "$RESULTS"
FAIL=0

case "$ID" in
  C05) STEPS="asan:MIRI-tables asan:CHECK miri:MIRI-tables" ;;
  C15) STEPS="asan:MIRI-matrices asan:CHECK miri:MIRI-matrices" ;;
  C16) STEPS="asan:MIRI-matrices asan:CHECK miri:MIRI-matrices" ;;
  C10) STEPS="asan:MIRI-purity asan:CHECK miri:MIRI-purity" ;;
  C17) STEPS="tsan:MIRI-purity tsan:CHECK miriseeds:MIRI-purity" ;;
  C18) STEPS="asan:MIRI-purity asan:CHECK" ;;
  C20) STEPS="asan:CHECK miri:MIRI-vectors" ;;
  *) exit 0 ;;
esac

record() { # tool workload verdict exit reports note
  python3 - "$RESULTS" "$@" <<'EOF'
import json,sys
f,tool,workload,verdict,rc,reports,note=sys.argv[1:8]
open(f,'a').write(json.dumps({"tool":tool,"workload":workload,"verdict":verdict,"exit":int(rc),"report_blocks":int(reports),"note":note})+"\n")
EOF
}

build_asan() {
  [ -x "target-asan/$TRIPLE/release/mtverif" ] && [ -z "${REBUILT_ASAN:-}" ] || true
  RUSTFLAGS="-Zsanitizer=address -Cforce-frame-pointers=yes" cargo +nightly build --release --offline --target $TRIPLE --target-dir target-asan >"$LOGDIR/build-asan.log" 2>&1
}
build_tsan() {
  RUSTFLAGS="-Zsanitizer=thread" cargo +nightly build --release --offline -Zbuild-std --target $TRIPLE --target-dir target-tsan >"$LOGDIR/build-tsan.log" 2>&1
}

run_native() { # tool workload
  local tool="$1" wl="$2" bin="target-$1/$TRIPLE/release/mtverif" log="$LOGDIR/$1-$2.log"
  local scratch="$HERE/harness/target-$tool/verif-root"
  rm -rf "$scratch"; mkdir -p "$scratch/evidence" "$scratch/replays"
  cp "$HERE/known_findings.json" "$scratch/" 2>/dev/null
  local rc
  if [ "$wl" = "CHECK" ]; then
    VERIF_ROOT="$scratch" VERIF_SCALE=0.2 VERIF_THREADS=8 \
      ASAN_OPTIONS="halt_on_error=1:abort_on_error=0:exitcode=77:detect_leaks=1" \
      TSAN_OPTIONS="halt_on_error=0:exitcode=66:second_deadlock_stack=1" \
      timeout 1800 "$bin" "$ID" --tier quick >"$log" 2>&1
    rc=$?
  else
    ASAN_OPTIONS="halt_on_error=1:abort_on_error=0:exitcode=77:detect_leaks=1" \
      TSAN_OPTIONS="halt_on_error=0:exitcode=66:second_deadlock_stack=1" \
      timeout 1800 "$bin" "$wl" >"$log" 2>&1
    rc=$?
  fi
  local reports
  reports=$(grep -c -E "ERROR: AddressSanitizer|WARNING: ThreadSanitizer|ERROR: LeakSanitizer" "$log")
  if [ "$reports" -gt 0 ] || [ $rc -eq 77 ] || [ $rc -eq 66 ]; then
    record "$tool" "$wl" "reports" $rc "$reports" "see $log"
    echo "VIOLATION property=$ID replay=$log"
    FAIL=1
  elif [ $rc -eq 124 ]; then
    record "$tool" "$wl" "inconclusive" $rc 0 "watchdog (30 min) fired"
  elif [ $rc -ne 0 ] && [ $rc -ne 3 ]; then
    # the workload itself found a violation under the sanitizer build (or failed): surface it
    if grep -q '^VIOLATION' "$log"; then
      record "$tool" "$wl" "workload_violation" $rc 0 "monitor fired in the sanitizer build, see $log"
      echo "VIOLATION property=$ID replay=$log"
      FAIL=1
    else
      record "$tool" "$wl" "inconclusive" $rc 0 "workload exited $rc without a sanitizer report"
    fi
  else
    record "$tool" "$wl" "clean" $rc 0 "$(grep -E 'MIRI-ENTRY|verdict=' "$log" | tail -1 | cut -c1-200)"
  fi
}

run_miri() { # workload seeds
  local wl="$1" seeds="$2" log="$LOGDIR/miri-$1.log"
  local flags="-Zmiri-disable-isolation -Zmiri-deterministic-floats"
  [ -n "$seeds" ] && flags="$flags -Zmiri-many-seeds=$seeds"
  MIRIFLAGS="$flags" timeout 3000 cargo +nightly miri run --offline --target-dir target-miri -- "$wl" >"$log" 2>&1
  local rc=$?
  local ub
  ub=$(grep -c -E "error: Undefined Behavior|error: unsupported operation|Data race detected|error: memory leaked|error: deadlock" "$log")
  local nseeds=1
  [ -n "$seeds" ] && nseeds=$(( ${seeds##*..} - ${seeds%%..*} ))
  if [ "$ub" -gt 0 ]; then
    record "miri" "$wl" "reports" $rc "$ub" "see $log"
    echo "VIOLATION property=$ID replay=$log"
    FAIL=1
  elif [ $rc -eq 124 ]; then
    record "miri" "$wl" "inconclusive" $rc 0 "watchdog fired"
  elif [ $rc -ne 0 ]; then
    if grep -q "MIRI-ENTRY" "$log" && grep -E "MIRI-ENTRY" "$log" | grep -q -E "mismatches=[1-9]|problems=[1-9]|violations=[1-9]"; then
      record "miri" "$wl" "workload_violation" $rc 0 "see $log"
      echo "VIOLATION property=$ID replay=$log"
      FAIL=1
    else
      record "miri" "$wl" "inconclusive" $rc 0 "miri could not run the workload (exit $rc)"
    fi
  else
    record "miri" "$wl" "clean" $rc 0 "distinct schedules (seeds) = $nseeds; $(grep -E 'MIRI-ENTRY' "$log" | tail -1 | cut -c1-160)"
  fi
}

BUILT_ASAN=""; BUILT_TSAN=""
for st in $STEPS; do
  tool="${st%%:*}"; wl="${st##*:}"
  case "$tool" in
    asan)
      if [ -z "$BUILT_ASAN" ]; then
        if build_asan; then BUILT_ASAN=ok; else BUILT_ASAN=fail; fi
      fi
      if [ "$BUILT_ASAN" = ok ]; then run_native asan "$wl"; else record asan "$wl" inconclusive 2 0 "ASan build unavailable (see build-asan.log)"; fi ;;
    tsan)
      if [ -z "$BUILT_TSAN" ]; then
        if build_tsan; then BUILT_TSAN=ok; else BUILT_TSAN=fail; fi
      fi
      if [ "$BUILT_TSAN" = ok ]; then run_native tsan "$wl"; else record tsan "$wl" inconclusive 2 0 "TSan build unavailable (see build-tsan.log)"; fi ;;
    miri) run_miri "$wl" "" ;;
    miriseeds) run_miri "$wl" "0..${VERIF_MIRI_SEEDS:-16}" ;;
  esac
done

# merge into the evidence file
python3 - "$HERE/evidence/$ID.json" "$RESULTS" <<'EOF'
import json,sys
ev,res=sys.argv[1:3]
try:
    e=json.load(open(ev))
except Exception:
    sys.exit(0)
rows=[json.loads(l) for l in open(res) if l.strip()]
e['coverage']['sanitizers']=rows
inc=[f"{r['tool']}:{r['workload']}: {r['note']}" for r in rows if r['verdict']=='inconclusive']
e['coverage'].setdefault('inconclusive_substeps',[]).extend(inc)
if any(r['verdict'] in ('reports','workload_violation') for r in rows):
    e['coverage']['verdict']='violated'
    e['violations']=e.get('violations',0)+sum(1 for r in rows if r['verdict'] in ('reports','workload_violation'))
json.dump(e,open(ev,'w'),indent=2)
for r in rows: print(f"SANITIZER {r['tool']} {r['workload']}: {r['verdict']} ({r['note']})")
EOF
exit $FAIL
