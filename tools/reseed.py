#!/usr/bin/env python3
"""Regression over all seeded changes: applies every /verif/seeded/<name>/patch.diff to a SCRATCH
copy of /repo (never to /repo itself), rebuilds a scratch copy of the harness against it and
runs the quick tier of the property's own check (plus the other checks recorded in meta.json).
Writes /verif/seeded/regression.json.  usage: tools/reseed.py [name ...]"""
import json, os, shutil, subprocess, sys, time

REPO = "/repo"
SCR = "/tmp/rs-repo"
HAR = "/tmp/rs-harness"
ROOT = "/tmp/rs-root"
ENV = dict(os.environ, CARGO_NET_OFFLINE="true", VERIF_ROOT=ROOT, VERIF_REPO=SCR, VERIF_SEED=os.environ.get("VERIF_SEED", "1"))


def sh(cmd, cwd=None, timeout=3600):
    p = subprocess.run(cmd, shell=True, cwd=cwd, env=ENV, stdout=subprocess.PIPE, stderr=subprocess.STDOUT, timeout=timeout)
    return p.returncode, p.stdout.decode(errors="replace")


def setup():
    for d in (HAR, ROOT):
        shutil.rmtree(d, ignore_errors=True)
    sh(f"git -C {REPO} worktree remove --force {SCR}")
    shutil.rmtree(SCR, ignore_errors=True)
    rc, out = sh(f"git -C {REPO} worktree add --detach {SCR} HEAD")
    assert rc == 0, out
    shutil.copy(f"{REPO}/Cargo.lock", f"{SCR}/Cargo.lock")
    os.makedirs(HAR)
    shutil.copytree("/verif/harness/src", f"{HAR}/src")
    open(f"{HAR}/Cargo.toml", "w").write(open("/verif/harness/Cargo.toml").read().replace('path = "/repo"', f'path = "{SCR}"'))
    shutil.copy("/verif/harness/Cargo.lock", f"{HAR}/Cargo.lock")
    os.makedirs(f"{ROOT}/evidence"); os.makedirs(f"{ROOT}/replays")
    shutil.copy("/verif/known_findings.json", f"{ROOT}/known_findings.json")


def main():
    only = set(sys.argv[1:])
    names = sorted(d for d in os.listdir("/verif/seeded") if os.path.isfile(f"/verif/seeded/{d}/patch.diff"))
    setup()
    rows = []
    if only and os.path.exists("/verif/seeded/regression.json"):
        # partial run: keep the rows of the seeds that are not re-run
        rows = [r for r in json.load(open("/verif/seeded/regression.json")).get("rows", []) if r.get("seed") not in only]
    try:
        for name in names:
            if only and name not in only:
                continue
            meta = json.load(open(f"/verif/seeded/{name}/meta.json"))
            prop = meta["property"]
            checks = [prop] + [c["check"] for c in meta.get("checks_run_with_patch_applied_to_repo", []) if c["check"] != prop]
            sh("git checkout -- .", cwd=SCR)
            rc, out = sh(f"git apply /verif/seeded/{name}/patch.diff", cwd=SCR)
            if rc != 0:
                rows.append({"seed": name, "status": "patch_does_not_apply", "tail": out[-300:]}); print(name, "patch does not apply"); continue
            rc, out = sh("cargo build --release --offline", cwd=HAR)
            if rc != 0:
                rows.append({"seed": name, "status": "harness_does_not_build", "tail": out[-400:]}); print(name, "harness build failed"); continue
            res = {}
            for c in checks:
                rc, out = sh(f"{HAR}/target/release/mtverif {c} --tier quick", cwd=HAR)
                res[c] = {"exit": rc, "clauses": sorted(set(l.split("clause=")[1].split()[0] for l in out.splitlines() if "clause=" in l))}
            rows.append({"seed": name, "property": prop, "own_check_fired": res[prop]["exit"] == 1, "checks": res})
            print(name, {c: r["exit"] for c, r in res.items()}, flush=True)
            json.dump({"note": "quick tier against a scratch copy of /repo with the seeded patch applied; exit 1 = check fired", "seed_value": ENV["VERIF_SEED"], "rows": rows}, open("/verif/seeded/regression.json", "w"), indent=1)
    finally:
        sh(f"git -C {REPO} worktree remove --force {SCR}")
        for d in (HAR, ROOT, SCR):
            shutil.rmtree(d, ignore_errors=True)


if __name__ == "__main__":
    main()
