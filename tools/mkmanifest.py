#!/usr/bin/env python3
"""Generates /verif/MANIFEST.json from the table below (keeps it schema-valid)."""
import json, os, sys
ROOT = os.path.dirname(os.path.dirname(os.path.abspath(__file__)))

# id -> (technique, level text, level note, design ref)
CHECKS = {
 "C01": ("statistical (aggregate) monitor: batch-means Monte-Carlo estimate vs independently known closed-form integrals, sequential z-test; double-double re-evaluation of f64-pathological points",
         "48 (quick) / 160 (thorough) configurations from seven closed-form families (rose of massive tadpoles with shifts and mixed routings, massless bubble, 3/4-line massless bananas, bubble chain, 2-loop vacuum sunrise, massive unit bubble), D=1..6, each under two routings, with bounded test functions of the loop momenta; 4e5 (quick) / 1.6e7 (thorough) calls of generate_sample_from_rng per configuration at stage 1, escalating x8 and x64 before a violation (|z|>6) is declared. Errors are counted and a fraction above 1e-5 is itself a violation. Decides the property only statistically: detectable bias ~ 6 standard errors (0.1-2% quick, ~0.03% thorough).",
         "CLT for 64 batch means; closed forms evaluated with an independent Lanczos Gamma; configurations restricted to sub-dod >= 0.35 so that f64 cancellation in V has negligible measure (hostile corners belong to C02, C07-C11)", "§5 C01"),
 "C02": ("reference-model monitor: brute-force tropical maxima and exact F coefficients vs returned u, v, jacobian at sector-directed corner points",
         "For 200 (quick) / 4000 (thorough) accepted graphs, all sectors for E<=4/5 (random above) with corner points escalating until the exactly computed condition number of V reaches 1e8: U_tr<=u<=N_T U_tr, (c_min/N_T) V_tr<=v<=C_sum V_tr and jacobian/normalisation inside its graph-only interval.",
         "generic kinematics; domain = exact cancellation ratio (A+|B|)/|V| <= 1e8; each clause evaluated when the rigorous rounding bound of its quantity is below 5% (slack widened by it); graphs with exactly one external vertex excluded (known finding F8 under C07); two-component graphs included", "§5 C02"),
 "C06": ("reference-model monitor with directed workload: exact rational cumulative sums vs the edge read from the debug log; every subgraph x every boundary",
         "Every subset with >=2 edges of 160 (quick) / 2000 (thorough) graphs is driven to; u placed on +-0..3 ulp of every cumulative boundary, inside every interval, at 0, 5e-324, 2^-53, 1-2^-51..1-2^-53. Per graph the subgraph/boundary enumeration is complete.",
         "within 64 eps of a boundary either neighbour is accepted (the code sums in f64), except on subgraphs whose f64 partial sums are exact (equal-weight topologies), where '>=' is required strictly at, above and below each boundary; found and fixed the fall-through panic", "§5 C06"),
 "C07": ("reference-model monitor: sector formula from exact omegas, brute-force tropical maxima, normalisation identity, from the debug log",
         "All E! sectors for E<=4 (5 in thorough), random sectors above, xi uniform/benign/corner: ln x[s_k]=sum ln xi_j/omega(g_j); u_trop and u_trop*v_trop equal the largest monomials of U and generic F over spanning trees/2-forests; rescaled parameters are a common multiple and normalise U_tr^(D/2) V_tr^dod to 1.",
         "two known findings recorded (rescaling overflow F7, single external vertex F8); points within 1e-9 of a boundary skipped as the property states", "§5 C07"),
 "C08": ("reference-model + metamorphic monitor: exact rational L and spanning-tree sum vs Metadata.l_matrix and u; same point under 3 further routings",
         "L entries (bitwise symmetric) and u against the exact first Symanzik polynomial at the logged Feynman parameters, tolerance 256*L*eps*kappa_F; oracle self-checked by the matrix-tree theorem on every point; routing independence on ~1e4 (quick) pairs.",
         "points whose bound exceeds 1e-3 are counted as skipped", "§5 C08"),
 "C09": ("reference-model + metamorphic monitor: exact 2-forest polynomial vs v*u; routing/orientation/offset changes",
         "v*u against the exact second Symanzik polynomial (2-forest sum with exact rational momenta and masses), u_vectors against exact; u, v, jacobian compared across cycle bases, edge-orientation flips and loop-momentum offsets up to 2. Oracle self-checked on every point: exact V*U == exact F.",
         "tolerance 256*eps*cond_V with cond_V computed exactly; ill-conditioned points skipped and counted", "§5 C09"),
 "C10": ("reference-model monitor: exact rational quadratic form, L^-1 u and Cholesky map vs returned momenta and metadata",
         "shift vs exact L^-1 u; sum_e x_e(|q_e|^2+m_e^2) evaluated exactly at the returned momenta vs v(1+|q|^2/2lambda); Q^T(k+L^-1u)=sqrt(v/2lambda) q component-wise with the returned factor verified to be the unique Cholesky factor (pins Q^-T against Q^-1 and rotated variants). All 30 (D,L) pairs counted.",
         "condition-scaled tolerances; hostile Gaussian/lambda coordinates included", "§5 C10"),
 "C11": ("reference-model monitor: formula on returned u,v and gauge invariance from the unrescaled parameters with the oracle's own normalisation",
         "returned u_trop=v_trop=1 exactly; jacobian vs (1/u)^(D/2)(1/v)^dod*normalisation; vs N (U_tr/U)^(D/2)(V_tr/V)^dod evaluated exactly at the UNRESCALED parameters with N from the independent J/Gamma oracle.",
         "single-external graphs excluded from the gauge clause (F8)", "§5 C11"),
 "C13": ("reference-model monitor: Box-Muller of the designated coordinate pairs vs Metadata.q_vectors",
         "All 30 (D,L) pairs in rotation; a down to 5e-324 and up to 1-2^-53, b on octant boundaries +-2 ulp; every component compared (tolerance 32 eps max(1,r)); shape L x D.",
         "a in (0,1) as the property states", "§5 C13"),
 "C14": ("instrumented-scalar monitor (dynamic taint tracking through a user-supplied MomTropFloat) + black-box metamorphic perturbation monitor",
         "Per execution: dependency sets of u, v, jacobian, L, lambda, every Gaussian component and the control set are compared with the roles the property assigns; extra coordinates ignored; n-1 coordinates panic; single-coordinate perturbations change only (and do change) the outputs of their role.",
         "dependency sets are properties of the executions observed, not of all paths", "§5 C14"),
 "C17": ("metamorphic monitors (history, 16 threads on a shared sampler with overlap counting, separate processes, RNG entry, settings) + TSan and Miri many-seeds in thorough",
         "Bit-identical results for a 24-point probe set after 600/5000 unrelated calls on the same sampler, from 16 concurrent threads (overlapping call pairs counted; none observed => inconclusive), from 2-4 fresh processes; RNG entry draws exactly get_dimension() numbers; settings do not change numbers. Thorough adds ThreadSanitizer and Miri schedules.",
         "interleavings reached: native scheduling with jitter, TSan happens-before analysis of those runs, Miri seeds", "§5 C17, §6"),
 "C18": ("metamorphic monitor: JSON and CBOR round trips, byte-identical re-serialisation and bit-identical samples",
         "300 (quick) / 5000 (thorough) graphs x 40-60 probe points (all sectors for E<=4, corners, boundary-adjacent, stability test on/off) through serde_json and ciborium.",
         "formats: serde_json with float_roundtrip, CBOR", "§5 C18"),
 "C19": ("instrumented-scalar monitors: #[track_caller] census of to_f64/from_f64 call sites, and 106-bit double-double residuals of algebraic identities",
         "Every narrowing observed while sample() runs with the census scalar must lie inside inverse_gamma_lr (line range parsed from the current source) and be exactly (shape, probability, tolerance); with a double-double scalar seven identities among returned values hold to 2^-90*kappa (observed 2^-84), where any f64 detour leaves 2^-53.",
         "three scalar types represent 'any type implementing MomTropFloat'; monitor 3 skews the scalar's PI() by 2^-20 so that an f64 literal used in place of the user's constant is visible", "§5 C19"),
 "C03": ("reference-model monitor: union-find/rational definitions vs the serialised table, all 2^E subsets per graph",
         "For each of ~2e4 (quick) / 5e5 (thorough) random multigraphs (self-loops, parallel edges, disconnected, arbitrary labels, untouched externals, all mass patterns, D=1..6) every one of the 2^E table entries is compared with definitions evaluated by an independent union-find / exact-rational oracle; per graph the check is exhaustive, over graphs it is sampled.",
         "table index <-> subset bit convention as documented; tolerance 8*E*eps*(sum w + D*E/2) on dod (exact for dyadic weights)", "§5 C03"),
 "C04": ("reference-model monitor: exact rational J recursion and independent Gamma vs the serialised table",
         "J of every subset of every accepted graph is compared with an exact BigRational evaluation of the recursion built on the oracle's own degrees of divergence (self-checked against the sum over all E! orderings for E<=6); cached_factor against an independent Lanczos Gamma. Exploration over sampled graphs, exhaustive per graph.",
         "independent lnGamma accurate to ~1e-14; relative tolerance 64*E*eps (wider for non-dyadic weights)", "§5 C04"),
 "C05": ("reference-model + metamorphic monitor: exact convergence oracle, rebuild in-process/other thread/other process, subprocess size probes",
         "Accept/reject verdict of build_sampler compared with the exact rational 'exists a proper subset with dod<=0' on graphs generated on both sides of (and exactly on) the boundary; J finite and positive on Ok; serialisation identical across rebuilds, threads and processes; E=63/64 probed in subprocesses (known finding).",
         "graphs with |omega|<1e-9 excluded from the iff as the property states; E in 30..58 not probed (allocation failure would be inconclusive)", "§5 C05"),
 "C12": ("reference-model monitor: independent incomplete-gamma implementation vs inverse_gamma_lr on grids/random (a,p); metamorphic link to Metadata.lambda",
         "~8e5 (quick) / 8e7 (thorough) (a,p) pairs covering every reachable starting-value branch (counted), p down to 5e-324 and up to 1-2^-53, a within 2.5e-8 of 1; Ok=>finite positive; accuracy 2e-8 where the true quantile >= 1e-13; monotone; no panic; sample lambda bit-identical to the direct call.",
         "oracle P/Q accurate to ~1e-13 absolute, self-tested at start-up; an oracle self-test failure makes the run inconclusive", "§5 C12"),
 "C15": ("reference-model monitor: exact rational inverse/determinant vs decompose_for_tropical",
         "2e4 (quick) / 1e6 (thorough) SPD matrices, n=1..8 evenly, seven families up to kappa_F=1e10; triangular structure, QQ^T=A, factor inverse, inverse and determinant compared with exact rational linear algebra under a 64*n*eps*kappa_F bound; ill-conditioned cases are counted as skipped, never as pass or fail.",
         "Frobenius condition number from exact arithmetic; observed error/bound reported (max ~0.03 on the unchanged tree)", "§5 C15"),
 "C16": ("reference-model monitor: exact rational L_2,1 distance recomputed from the returned inverse; hostile matrices and corner-point samples",
         "2e4 (quick) / 1e6 (thorough) symmetric matrices of twelve families x nine tolerance classes (incl. 0, +inf, NaN, negative) plus samples at xi=0 / 5e-324 / 1e-300 with the test on: Ok => det != 0, and with Some(tol) => no NaN and exact distance <= tol + rounding slack.",
         "slack covers only the rounding of the code's own norm evaluation; directed tolerances at 0.5x/0.9x the exact distance and between the row-wise and column-wise norms (whose gap is below that slack: unobservable); found and fixed two defects (see known_findings.json)", "§5 C16"),
 "C20": ("reference-model monitor, bit-for-bit, on random hostile f64 inputs (+ Miri in thorough)",
         "Every Vector operation (D=1..8) and every f64 MomTropFloat method is executed on ~1e6 (quick) / 1e8 (thorough) hostile inputs and compared bit for bit with plain IEEE loops / std functions. Exploration: held on the inputs run, no more.",
         "trusts rustc's IEEE semantics for the reference loops; NaN payloads not compared", "§5 C20"),
}
NOT_YET = {}

def main():
    props = [json.loads(l) for l in open(os.path.join(ROOT, "properties.jsonl"))]
    checks = []
    na = []
    for p in props:
        pid = p["id"]
        if pid in CHECKS:
            tech, text, note, ref = CHECKS[pid]
            checks.append({
                "property_id": pid,
                "quick_cmd": f"./check {pid} quick",
                "thorough_cmd": f"./check {pid} thorough",
                "evidence_file": f"/verif/evidence/{pid}.json",
                "replay_cmd_template": f"./check {pid} --replay {{path}}",
                "engine": "mtverif",
                "level_claimed": {"category": "exploration", "text": text, "design_ref": ref},
                "level_note": note,
                "technique": tech,
            })
        else:
            na.append({"property_id": pid, "reason": NOT_YET.get(pid, "check not built yet in this round (design in DESIGN.md §5); will be claimed once its monitor is running")})
    m = {
        "version": 1,
        "setup_cmd": "cd /verif/harness && CARGO_NET_OFFLINE=true cargo build --release --offline",
        "hooks": {
            "guard": "none (no source hooks: observation through the public API, serde serialisation, the repository's own cargo feature `log`, and user-supplied scalar types)",
            "enable": "harness crate depends on /repo by path with the pre-existing cargo feature `log` enabled (momtrop/log)",
            "baseline_off_cmd": "cd /repo && cargo test --workspace --no-fail-fast --offline",
            "source_commits": [],
            "add_only": True,
        },
        "engines": [{
            "name": "mtverif",
            "path": "/verif/harness",
            "serves_properties": [c["property_id"] for c in checks],
            "kind_free_text": "Rust harness: runs the real momtrop code on generated hostile workloads; reference-model, metamorphic, instrumented-scalar and statistical monitors; sanitizers/Miri in thorough tier",
        }],
        "checks": checks,
        "not_applicable": na,
        "notes": "Runtime monitoring only: every verdict is 'held on the executions observed'. Exit 0 = no violation observed (verdict held_on_observed or inconclusive in the evidence), 1 = violation, 2 = build problem. Known findings: /verif/known_findings.json.",
    }
    json.dump(m, open(os.path.join(ROOT, "MANIFEST.json"), "w"), indent=1)
    print("checks:", len(checks), "not_applicable:", len(na))

main()
