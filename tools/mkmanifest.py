#!/usr/bin/env python3
"""Generates /verif/MANIFEST.json from the table below (keeps it schema-valid)."""
import json, os, sys
ROOT = os.path.dirname(os.path.dirname(os.path.abspath(__file__)))

# id -> (technique, level text, level note, design ref)
CHECKS = {
 "C03": ("reference-model monitor: union-find/rational definitions vs the serialised table, all 2^E subsets per graph",
         "For each of ~2e4 (quick) / 5e5 (thorough) random multigraphs (self-loops, parallel edges, disconnected, arbitrary labels, untouched externals, all mass patterns, D=1..6) every one of the 2^E table entries is compared with definitions evaluated by an independent union-find / exact-rational oracle; per graph the check is exhaustive, over graphs it is sampled.",
         "table index <-> subset bit convention as documented; tolerance 8*E*eps*(sum w + D*E/2) on dod (exact for dyadic weights)", "§5 C03"),
 "C04": ("reference-model monitor: exact rational J recursion and independent Gamma vs the serialised table",
         "J of every subset of every accepted graph is compared with an exact BigRational evaluation of the recursion built on the oracle's own degrees of divergence (self-checked against the sum over all E! orderings for E<=6); cached_factor against an independent Lanczos Gamma. Exploration over sampled graphs, exhaustive per graph.",
         "independent lnGamma accurate to ~1e-14; relative tolerance 64*E*eps (wider for non-dyadic weights)", "§5 C04"),
 "C05": ("reference-model + metamorphic monitor: exact convergence oracle, rebuild in-process/other thread/other process, subprocess size probes",
         "Accept/reject verdict of build_sampler compared with the exact rational 'exists a proper subset with dod<=0' on graphs generated on both sides of (and exactly on) the boundary; J finite and positive on Ok; serialisation identical across rebuilds, threads and processes; E=63/64 probed in subprocesses (known finding).",
         "graphs with |omega|<1e-9 excluded from the iff as the property states; E in 30..58 not probed (allocation failure would be inconclusive)", "§5 C05"),
 "C12": ("reference-model monitor: independent incomplete-gamma implementation vs inverse_gamma_lr on grids/random (a,p); metamorphic link to Metadata.lambda",
         "~8e5 (quick) / 8e7 (thorough) (a,p) pairs covering every reachable starting-value branch (counted), p down to 5e-324 and up to 1-2^-53, a within 2.5e-8 of 1; Ok=>finite positive; accuracy 2e-8 where the true quantile >= 1e-13; monotone; no panic; sample lambda bit-identical to the direct call.",
         "oracle P/Q accurate to ~1e-13 absolute, self-tested at start-up; an oracle self-test failure makes the run inconclusive", "§5 C12"),
 "C15": ("reference-model monitor: exact rational inverse/determinant vs decompose_for_tropical",
         "2e4 (quick) / 1e6 (thorough) SPD matrices, n=1..8 evenly, seven families up to kappa_F=1e10; triangular structure, QQ^T=A, factor inverse, inverse and determinant compared with exact rational linear algebra under a 64*n*eps*kappa_F bound; ill-conditioned cases are counted as skipped, never as pass or fail.",
         "Frobenius condition number from exact arithmetic; observed error/bound reported (max ~0.03 on the unchanged tree)", "§5 C15"),
 "C16": ("reference-model monitor: exact rational L_2,1 distance recomputed from the returned inverse; hostile matrices and corner-point samples",
         "2e4 (quick) / 1e6 (thorough) symmetric matrices of twelve families x nine tolerance classes (incl. 0, +inf, NaN, negative) plus samples at xi=0 / 5e-324 / 1e-300 with the test on: Ok => det != 0, and with Some(tol) => no NaN and exact distance <= tol + rounding slack.",
         "slack covers only the rounding of the code's own norm evaluation; found and fixed two defects (see known_findings.json)", "§5 C16"),
 "C20": ("reference-model monitor, bit-for-bit, on random hostile f64 inputs (+ Miri in thorough)",
         "Every Vector operation (D=1..8) and every f64 MomTropFloat method is executed on ~1e6 (quick) / 1e8 (thorough) hostile inputs and compared bit for bit with plain IEEE loops / std functions. Exploration: held on the inputs run, no more.",
         "trusts rustc's IEEE semantics for the reference loops; NaN payloads not compared", "§5 C20"),
}
NOT_YET = {}

def main():
    props = [json.loads(l) for l in open(os.path.join(ROOT, "properties.jsonl"))]
    checks = []
    na = []
    for p in props:
        pid = p["id"]
        if pid in CHECKS:
            tech, text, note, ref = CHECKS[pid]
            checks.append({
                "property_id": pid,
                "quick_cmd": f"./check {pid} quick",
                "thorough_cmd": f"./check {pid} thorough",
                "evidence_file": f"/verif/evidence/{pid}.json",
                "replay_cmd_template": f"./check {pid} --replay {{path}}",
                "engine": "mtverif",
                "level_claimed": {"category": "exploration", "text": text, "design_ref": ref},
                "level_note": note,
                "technique": tech,
            })
        else:
            na.append({"property_id": pid, "reason": NOT_YET.get(pid, "check not built yet in this round (design in DESIGN.md §5); will be claimed once its monitor is running")})
    m = {
        "version": 1,
        "setup_cmd": "cd /verif/harness && CARGO_NET_OFFLINE=true cargo build --release --offline",
        "hooks": {
            "guard": "none (no source hooks: observation through the public API, serde serialisation, the repository's own cargo feature `log`, and user-supplied scalar types)",
            "enable": "harness crate depends on /repo by path with the pre-existing cargo feature `log` enabled (momtrop/log)",
            "baseline_off_cmd": "cd /repo && cargo test --workspace --no-fail-fast --offline",
            "source_commits": [],
            "add_only": True,
        },
        "engines": [{
            "name": "mtverif",
            "path": "/verif/harness",
            "serves_properties": [c["property_id"] for c in checks],
            "kind_free_text": "Rust harness: runs the real momtrop code on generated hostile workloads; reference-model, metamorphic, instrumented-scalar and statistical monitors; sanitizers/Miri in thorough tier",
        }],
        "checks": checks,
        "not_applicable": na,
        "notes": "Runtime monitoring only: every verdict is 'held on the executions observed'. Exit 0 held, 1 violation, 2 build problem, 3 inconclusive. Known findings: /verif/known_findings.json.",
    }
    json.dump(m, open(os.path.join(ROOT, "MANIFEST.json"), "w"), indent=1)
    print("checks:", len(checks), "not_applicable:", len(na))

main()
