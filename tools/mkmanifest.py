#!/usr/bin/env python3
"""Generates /verif/MANIFEST.json from the table below (keeps it schema-valid)."""
import json, os, sys
ROOT = os.path.dirname(os.path.dirname(os.path.abspath(__file__)))

# id -> (technique, level text, level note, design ref)
CHECKS = {
 "C20": ("reference-model monitor, bit-for-bit, on random hostile f64 inputs (+ Miri in thorough)",
         "Every Vector operation (D=1..8) and every f64 MomTropFloat method is executed on ~1e6 (quick) / 1e8 (thorough) hostile inputs and compared bit for bit with plain IEEE loops / std functions. Exploration: held on the inputs run, no more.",
         "trusts rustc's IEEE semantics for the reference loops; NaN payloads not compared", "§5 C20"),
}
NOT_YET = {}

def main():
    props = [json.loads(l) for l in open(os.path.join(ROOT, "properties.jsonl"))]
    checks = []
    na = []
    for p in props:
        pid = p["id"]
        if pid in CHECKS:
            tech, text, note, ref = CHECKS[pid]
            checks.append({
                "property_id": pid,
                "quick_cmd": f"./check {pid} quick",
                "thorough_cmd": f"./check {pid} thorough",
                "evidence_file": f"/verif/evidence/{pid}.json",
                "replay_cmd_template": f"./check {pid} --replay {{path}}",
                "engine": "mtverif",
                "level_claimed": {"category": "exploration", "text": text, "design_ref": ref},
                "level_note": note,
                "technique": tech,
            })
        else:
            na.append({"property_id": pid, "reason": NOT_YET.get(pid, "check not built yet in this round (design in DESIGN.md §5); will be claimed once its monitor is running")})
    m = {
        "version": 1,
        "setup_cmd": "cd /verif/harness && CARGO_NET_OFFLINE=true cargo build --release --offline",
        "hooks": {
            "guard": "none (no source hooks: observation through the public API, serde serialisation, the repository's own cargo feature `log`, and user-supplied scalar types)",
            "enable": "harness crate depends on /repo by path with the pre-existing cargo feature `log` enabled (momtrop/log)",
            "baseline_off_cmd": "cd /repo && cargo test --workspace --no-fail-fast --offline",
            "source_commits": [],
            "add_only": True,
        },
        "engines": [{
            "name": "mtverif",
            "path": "/verif/harness",
            "serves_properties": [c["property_id"] for c in checks],
            "kind_free_text": "Rust harness: runs the real momtrop code on generated hostile workloads; reference-model, metamorphic, instrumented-scalar and statistical monitors; sanitizers/Miri in thorough tier",
        }],
        "checks": checks,
        "not_applicable": na,
        "notes": "Runtime monitoring only: every verdict is 'held on the executions observed'. Exit 0 held, 1 violation, 2 build problem, 3 inconclusive. Known findings: /verif/known_findings.json.",
    }
    json.dump(m, open(os.path.join(ROOT, "MANIFEST.json"), "w"), indent=1)
    print("checks:", len(checks), "not_applicable:", len(na))

main()
