#!/bin/bash
# tools/seedtest.sh <ID-or-name> <worktree> <property> [check ...]
# Confirms a seeded change (patch + demonstration written by an independent sub-agent in
# <worktree>), stores it under /verif/seeded/<name>/ and runs the given checks (default: the
# property's own quick check) against /repo with the patch applied, undoing it afterwards.
set -u
NAME="$1"; W="$2"; PROP="$3"; shift 3
CHECKS="${*:-$PROP}"
D=/verif/seeded/$NAME
mkdir -p "$D"
export CARGO_NET_OFFLINE=true
cp "$W/seed_patch.diff" "$D/patch.diff" || exit 2
[ -f "$W/seed_meta.json" ] && cp "$W/seed_meta.json" "$D/agent_meta.json"
DEMO=""
if [ -f "$W/tests/seed_demo.rs" ]; then DEMO="tests/seed_demo.rs"; DEMOCMD="cargo test --offline --test seed_demo"; fi
if [ -f "$W/examples/seed_demo.rs" ]; then DEMO="examples/seed_demo.rs"; DEMOCMD="cargo run --offline --example seed_demo"; fi
[ -n "$DEMO" ] || { echo "no demo found"; exit 2; }
cp "$W/$DEMO" "$D/$(basename $DEMO)"
LOG="$D/confirm.log"
if [ -n "${REUSE_CONFIRM:-}" ] && [ -f "$D/confirm.rc" ]; then
  . "$D/confirm.rc"
else
: > "$LOG"
cd "$W" || exit 2
git checkout -q -- src
echo "## unmodified library: demo must pass" >> "$LOG"
( $DEMOCMD ) >> "$LOG" 2>&1; RC_CLEAN=$?
git apply "$D/patch.diff" || { echo "patch does not apply"; exit 2; }
echo "## with patch: builds" >> "$LOG"
cargo build --offline >> "$LOG" 2>&1; RC_B1=$?
cargo build --offline --features log >> "$LOG" 2>&1; RC_B2=$?
echo "## with patch: existing tests" >> "$LOG"
cargo test --offline --lib --test triangle >> "$LOG" 2>&1; RC_T=$?
echo "## with patch: demo must fail" >> "$LOG"
( $DEMOCMD ) >> "$LOG" 2>&1; RC_SEED=$?
git checkout -q -- src
echo "RC_CLEAN=$RC_CLEAN; RC_B1=$RC_B1; RC_B2=$RC_B2; RC_T=$RC_T; RC_SEED=$RC_SEED" > "$D/confirm.rc"
fi
echo "confirm: demo_on_clean_rc=$RC_CLEAN build_rc=$RC_B1/$RC_B2 existing_tests_rc=$RC_T demo_with_patch_rc=$RC_SEED"
CONFIRMED=false
if [ $RC_CLEAN -eq 0 ] && [ $RC_B1 -eq 0 ] && [ $RC_B2 -eq 0 ] && [ $RC_T -eq 0 ] && [ $RC_SEED -ne 0 ]; then CONFIRMED=true; fi
# run the checks against /repo with the patch applied
cd /verif
RESULTS=""
if $CONFIRMED && [ -z "${SKIP_REPO:-}" ]; then
  git -C /repo apply "$D/patch.diff" || { echo "patch does not apply to /repo"; exit 2; }
  for c in $CHECKS; do
    OUT=$(./check "$c" quick 2>&1); RC=$?
    echo "$OUT" > "$D/check_$c.log"
    V=$(echo "$OUT" | grep -c '^VIOLATION')
    CL=$(echo "$OUT" | grep 'clause=' | head -3 | tr '\n' ';')
    echo "check $c: rc=$RC violations_lines=$V $CL"
    RESULTS="$RESULTS{\"check\":\"$c\",\"exit\":$RC,\"violation_lines\":$V},"
  done
  git -C /repo checkout -- .
fi
python3 - "$D" "$NAME" "$PROP" "$CONFIRMED" "$RC_CLEAN" "$RC_T" "$RC_SEED" "[${RESULTS%,}]" "$DEMOCMD" <<'EOF'
import json,sys,os
d,name,prop,conf,rc_clean,rc_t,rc_seed,results,democmd=sys.argv[1:]
agent={}
p=os.path.join(d,'agent_meta.json')
if os.path.exists(p):
    try: agent=json.load(open(p))
    except Exception: agent={}
meta={"name":name,"property":prop,"breaks":agent.get("summary",""),"needs_to_manifest":agent.get("needs_to_manifest",""),
 "files_changed":agent.get("files_changed",[]),"demo_cmd":democmd,
 "confirmed":conf=="true",
 "what_i_ran":{"demo_on_unmodified_library_exit":int(rc_clean),"existing_tests_with_patch_exit (cargo test --offline --lib --test triangle)":int(rc_t),"demo_with_patch_exit":int(rc_seed),"builds":"cargo build --offline [--features log]"},
 "checks_run_with_patch_applied_to_repo":json.loads(results)}
json.dump(meta,open(os.path.join(d,'meta.json'),'w'),indent=1)
print(json.dumps(meta["checks_run_with_patch_applied_to_repo"]))
EOF
