#!/usr/bin/env python3
"""Self-validation of the monitors: applies a catalogue of small source mutants to a SCRATCH
copy of /repo (never to /repo itself), keeps those that still compile and pass the existing
test suite, and runs the quick tier of the targeted checks against them with a scratch copy of
the harness.  Writes /verif/mutants/kill_matrix.json.   usage: tools/mutants.py [name ...]
Scratch directories (/tmp/mt-*) are removed at the end."""
import json, os, shutil, subprocess, sys, time

REPO = "/repo"
SCR = "/tmp/mt-repo"
HAR = "/tmp/mt-harness"
ROOT = "/tmp/mt-root"
ENV = dict(os.environ, CARGO_NET_OFFLINE="true", VERIF_ROOT=ROOT, VERIF_REPO=SCR, VERIF_SEED="1")

# (name, file, old, new, checks, what)
M = [
 ("ext_any_instead_of_all", "src/preprocessing.rs", "self.external_vertices.iter().all(|&v| {", "self.external_vertices.iter().any(|&v| {", ["C03", "C05", "C07"], "momentum spanning if ANY external is touched"),
 ("dod_not_subtracted_for_spanning", "src/preprocessing.rs", "weight_sum - loop_number as f64 * dimension as f64 / 2.0 - tropical_graph.dod", "weight_sum - loop_number as f64 * dimension as f64 / 2.0 - tropical_graph.dod * (loop_number.min(1) as f64)", ["C03", "C04", "C05"], "spanning subsets without loops lose the -dod(G) subtraction"),
 ("reject_strict_less", "src/preprocessing.rs", "if generalized_dod <= 0.0 && !subgraph.is_empty()", "if generalized_dod < 0.0 && !subgraph.is_empty()", ["C05", "C04"], "subgraphs with dod exactly 0 accepted"),
 ("reject_only_non_spanning", "src/preprocessing.rs", "if generalized_dod <= 0.0 && !subgraph.is_empty() && subgraph != full_subgraph_id {", "if generalized_dod <= 0.0 && !subgraph.is_empty() && subgraph != full_subgraph_id && !is_mass_momentum_spanning {", ["C05"], "IR-type (spanning) divergent subgraphs not rejected"),
 ("pi_factor_single_loop", "src/preprocessing.rs", "f64::consts::PI.powf((dimension * tropical_graph.num_loops) as f64 / 2.)", "f64::consts::PI.powf((dimension * tropical_graph.num_loops.min(2)) as f64 / 2.)", ["C04", "C01", "C11"], "pi power saturates at two loops"),
 ("gamma_ratio_skips_massive", "src/preprocessing.rs", ".map(|e| gamma(e.weight))", ".map(|e| if e.is_massive && e.weight > 2.0 { 1.0 } else { gamma(e.weight) })", ["C04", "C01"], "Gamma(weight) dropped for heavy massive edges"),
 ("edge_choice_strict", "src/preprocessing.rs", "if &cum_sum >= uniform {", "if &cum_sum > uniform {", ["C06"], "> instead of >= in the edge choice"),
 ("fallthrough_first_edge", "src/preprocessing.rs", "            last = Some((edge, graph_without_edge));", "            if last.is_none() { last = Some((edge, graph_without_edge)); }", ["C06"], "rounding fall-through returns the first edge"),
 ("l_matrix_lower_half_missing", "src/sampling.rs", "                    temp_l_matrix[(j, i)] += &add;", "                    if j < 2 { temp_l_matrix[(j, i)] += &add; }", ["C08", "C09", "C10"], "L[(j,i)] not filled for j>=2"),
 ("mass_not_squared", "src/sampling.rs", ".map(|(x_e, mass, shift)| (mass.ref_mul(mass) + shift.squared()) * x_e)", ".map(|(x_e, mass, shift)| (mass.clone() + shift.squared()) * x_e)", ["C09", "C10", "C01", "C02"], "m instead of m^2 in V"),
 ("v_cross_term_factor", "src/sampling.rs", "            res -= &(const_builder.from_isize(2)\n                * u_vectors[i].dot(&u_vectors[j])", "            res -= &(const_builder.from_isize(1)\n                * u_vectors[i].dot(&u_vectors[j])", ["C09", "C10", "C02"], "cross terms of u^T L^-1 u counted once"),
 ("v_cross_term_range", "src/sampling.rs", "        for j in i + 1..num_loops {\n            res -= &(const_builder.from_isize(2)", "        for j in (i + 1).max(2)..num_loops {\n            res -= &(const_builder.from_isize(2)", ["C09", "C10"], "cross term (0,1) skipped"),
 ("momenta_transposed_factor", "src/sampling.rs", "let q_part: Vector<T, D> = q * (prefactor.ref_mul(&q_t_inverse[(l, l_prime)]));", "let q_part: Vector<T, D> = q * (prefactor.ref_mul(&q_t_inverse[(l_prime, l)]));", ["C10", "C01"], "Q^-1 used instead of Q^-T"),
 ("momenta_missing_half", "src/sampling.rs", "let prefactor = (v.ref_div(lambda) / lambda.from_isize(2)).sqrt();", "let prefactor = (v.ref_div(lambda) / lambda.from_isize(if q_t_inverse.get_dim() > 1 { 1 } else { 2 })).sqrt();", ["C10", "C01"], "v/lambda without 1/2 for multi-loop graphs"),
 ("shift_metadata_transposed", "src/sampling.rs", "let u_part: Vector<T, D> = u * &l_inverse[(l, l_prime)];\n                    &acc + &u_part", "let u_part: Vector<T, D> = u * &l_inverse[(l, l_prime)];\n                    &acc + &(&u_part * l_inverse.zero().from_isize(if l_prime > l { 2 } else { 1 }))", ["C10"], "metadata shift doubles upper-triangle terms"),
 ("lambda_narrowed_again", "src/sampling.rs", "    .map_err(SamplingError::GammaError)?;\n", "    .map_err(SamplingError::GammaError)?;\n    let lambda = const_builder.from_f64(lambda.to_f64());\n", ["C19", "C14"], "lambda narrowed and widened once more outside the Gamma draw"),
 ("v_accumulated_in_f64", "src/sampling.rs", "        .fold(const_builder.zero(), |acc, x| acc + x);\n\n    for l in 0..num_loops {", "        .fold(const_builder.zero(), |acc, x| const_builder.from_f64((acc + x).to_f64()));\n\n    for l in 0..num_loops {", ["C19"], "mass/shift sum of V accumulated through f64"),
 ("jacobian_uses_integer_half_dim", "src/sampling.rs", "        .powf(&const_builder.from_f64(tropical_subgraph_table.dimension as f64 / 2.0))\n        * (v_trop.ref_div(&v))", "        .powf(&const_builder.from_f64(if num_loops > 1 { (tropical_subgraph_table.dimension / 2) as f64 } else { tropical_subgraph_table.dimension as f64 / 2.0 }))\n        * (v_trop.ref_div(&v))", ["C11", "C01", "C02"], "D/2 as integer division for multi-loop graphs"),
 ("metadata_changes_v", "src/sampling.rs", "    let metadata = if settings.return_metadata {", "    let v = if settings.return_metadata && num_loops > 2 { v.ref_mul(&const_builder.one()) + const_builder.zero() } else { v };\n    let metadata = if settings.return_metadata {", ["C17"], "no-op arithmetic under return_metadata (equivalent mutant: x*1+0 is exact)"),
 ("gamma_overflow_fallback_reverted", "src/preprocessing.rs", "if !gamma_ratio.is_finite() || gamma_ratio == 0.0 {", "if false {", ["C04"], "reverts fix F9: normalisation inf/NaN/0 when gamma(dod) or the product of gamma(weight) overflows"),
 ("stability_test_reverted", "src/matrix.rs", "if !(error <= error.from_f64(tolerance)) {", "if error > error.from_f64(tolerance) {", ["C16"], "NaN passes the stability test again (reverts fix F2)"),
 ("zero_det_only_q", "src/matrix.rs", "if det_q == const_builder.zero() || determinant == const_builder.zero() {", "if det_q == const_builder.zero() {", ["C16"], "reverts fix F4"),
 ("series_truncated_dim6", "src/matrix.rs", "let max_non_zero_power_of_n = self.dim - 1;", "let max_non_zero_power_of_n = (self.dim - 1).min(4);", ["C15", "C10", "C19"], "nilpotent series truncated after N^4 (dimension >= 6)"),
 ("det_not_squared_large", "src/matrix.rs", "let determinant = det_q.ref_mul(&det_q);", "let determinant = if self.dim > 4 { det_q.clone() } else { det_q.ref_mul(&det_q) };", ["C15", "C08"], "determinant = det Q for dimension > 4"),
 ("gamma_shortcut_window", "src/gamma.rs", "if (1.0 - 1.0e-8..=1.0 + 1.0e-8).contains(&a) {", "if (1.0 - 1.0e-3..=1.0 + 1.0e-3).contains(&a) {", ["C12", "C01"], "a~1 shortcut window widened to 1e-3"),
 ("gamma_result_check_reverted", "src/gamma.rs", "if !(res.is_finite() && res > 0.0) {", "if res.is_nan() {", ["C12"], "reverts fix F3"),
 ("gamma_small_x_reverted", "src/gamma.rs", "if x_n < 1.0e-14 {", "if x_n < 0.0 {", ["C01", "C12"], "reverts fix F5"),
 ("gamma_schroder_guard", "src/gamma.rs", "let h_n = if t_n.abs() <= 0.1 && (w_n * t_n).abs() <= 0.1 {", "let h_n = if t_n.abs() <= 10.0 && (w_n * t_n).abs() <= 10.0 {", ["C12"], "Schroeder correction applied far outside its range"),
 ("panic_three_loops", "src/sampling.rs", "    let num_loops = q_t_inverse.get_dim();\n    let prefactor", "    let num_loops = q_t_inverse.get_dim();\n    assert!(num_loops < 3 || q_vectors[2][0] < lambda.from_f64(2.0), \"scratch space exhausted\");\n    let prefactor", ["C08", "C10", "C13", "C14"], "sampling panics for >=3 loops when a Gaussian component exceeds 2"),
 ("spurious_zerodet_dim3", "src/matrix.rs", "        if det_q == const_builder.zero() || determinant == const_builder.zero() {", "        if det_q == const_builder.zero() || determinant == const_builder.zero() || (self.dim == 3 && q[(2, 2)] < q[(0, 0)].ref_mul(&const_builder.from_f64(0.01))) {", ["C09", "C15", "C01"], "well-conditioned 3x3 matrices with a smaller last pivot are refused as ZeroDet"),
 ("from_isize_via_f32", "src/float.rs", "        value as f64\n", "        value as f32 as f64\n", ["C20"], "from_isize through f32"),
 ("vector_sub_reversed_high_dim", "src/vector.rs", "            elements: array::from_fn(|i| self[i].ref_sub(&rhs[i])),", "            elements: array::from_fn(|i| if i > 3 { rhs[i].ref_sub(&self[i]) } else { self[i].ref_sub(&rhs[i]) }),", ["C20"], "subtraction reversed for components beyond the fourth"),
 ("cached_factor_not_serialised", "src/preprocessing.rs", "    pub cached_factor: f64,\n}", "    #[serde(skip)]\n    pub cached_factor: f64,\n}", ["C18", "C04"], "cached_factor skipped by serde"),
 ("signature_not_serialised_sign", "src/lib.rs", "#[derive(Clone, Debug, Serialize, Deserialize)]\n/// Sampler struct from which sample points can be generated.\npub struct SampleGenerator<const D: usize> {\n    loop_signature: Vec<Vec<isize>>,", "#[derive(Clone, Debug, Serialize, Deserialize)]\n/// Sampler struct from which sample points can be generated.\npub struct SampleGenerator<const D: usize> {\n    #[serde(deserialize_with = \"abs_signature\")]\n    loop_signature: Vec<Vec<isize>>,", ["C18"], "signs of the loop signature lost on deserialisation"),
]
EXTRA = {"signature_not_serialised_sign": ("src/lib.rs", "fn approx_eq<T: MomTropFloat>", "fn abs_signature<'de, De: serde::Deserializer<'de>>(d: De) -> Result<Vec<Vec<isize>>, De::Error> {\n    let v: Vec<Vec<isize>> = Deserialize::deserialize(d)?;\n    Ok(v.into_iter().map(|r| r.into_iter().map(|x| x.abs()).collect()).collect())\n}\n\nfn approx_eq<T: MomTropFloat>")}


def sh(cmd, cwd=None, timeout=3600):
    p = subprocess.run(cmd, shell=True, cwd=cwd, env=ENV, stdout=subprocess.PIPE, stderr=subprocess.STDOUT, timeout=timeout)
    return p.returncode, p.stdout.decode(errors="replace")


def setup():
    for d in (HAR, ROOT):
        shutil.rmtree(d, ignore_errors=True)
    sh(f"git -C {REPO} worktree remove --force {SCR}")
    shutil.rmtree(SCR, ignore_errors=True)
    rc, out = sh(f"git -C {REPO} worktree add --detach {SCR} HEAD")
    assert rc == 0, out
    shutil.copy(f"{REPO}/Cargo.lock", f"{SCR}/Cargo.lock")
    os.makedirs(HAR)
    shutil.copytree("/verif/harness/src", f"{HAR}/src")
    toml = open("/verif/harness/Cargo.toml").read().replace('path = "/repo"', f'path = "{SCR}"')
    open(f"{HAR}/Cargo.toml", "w").write(toml)
    shutil.copy("/verif/harness/Cargo.lock", f"{HAR}/Cargo.lock")
    os.makedirs(f"{ROOT}/evidence"); os.makedirs(f"{ROOT}/replays")
    shutil.copy("/verif/known_findings.json", f"{ROOT}/known_findings.json")


def teardown():
    sh(f"git -C {REPO} worktree remove --force {SCR}")
    for d in (HAR, ROOT, SCR):
        shutil.rmtree(d, ignore_errors=True)


def main():
    only = set(sys.argv[1:])
    setup()
    rows = []
    if only and os.path.exists("/verif/mutants/kill_matrix.json"):
        rows = [r for r in json.load(open("/verif/mutants/kill_matrix.json")).get("mutants", []) if r.get("mutant") not in only]
    try:
        # baseline: all targeted checks silent on the unmodified copy
        rc, out = sh("cargo build --release --offline", cwd=HAR)
        assert rc == 0, out[-2000:]
        for (name, f, old, new, checks, what) in M:
            if only and name not in only:
                continue
            t0 = time.time()
            sh("git checkout -- .", cwd=SCR)
            src = open(f"{SCR}/{f}").read()
            if src.count(old) != 1:
                rows.append({"mutant": name, "status": "pattern_not_found_or_ambiguous", "count": src.count(old)})
                print(name, "PATTERN PROBLEM", src.count(old)); continue
            src = src.replace(old, new)
            if name in EXTRA:
                ef, eo, en = EXTRA[name]
                assert src.count(eo) == 1
                src = src.replace(eo, en)
            open(f"{SCR}/{f}", "w").write(src)
            rc, out = sh("cargo build --offline && cargo build --offline --features log", cwd=SCR)
            if rc != 0:
                rows.append({"mutant": name, "status": "does_not_compile", "tail": out[-400:]})
                print(name, "does not compile"); continue
            rc, out = sh("cargo test --offline", cwd=SCR)
            if rc != 0:
                rows.append({"mutant": name, "what": what, "status": "killed_by_existing_tests"})
                print(name, "killed by existing tests"); continue
            rc, out = sh("cargo build --release --offline", cwd=HAR)
            if rc != 0:
                rows.append({"mutant": name, "status": "harness_does_not_build", "tail": out[-400:]})
                print(name, "harness build failed"); continue
            res = {}
            for c in checks:
                rc, out = sh(f"{HAR}/target/release/mtverif {c} --tier quick", cwd=HAR)
                clauses = sorted(set(l.split("clause=")[1].split()[0] for l in out.splitlines() if "clause=" in l))
                res[c] = {"exit": rc, "clauses": clauses}
            killed = [c for c, r in res.items() if r["exit"] == 1]
            rows.append({"mutant": name, "file": f, "what": what, "status": "survives_existing_tests", "checks": res, "killed_by": killed, "seconds": round(time.time() - t0)})
            print(name, "->", {c: r["exit"] for c, r in res.items()})
            json.dump({"note": "quick tier, VERIF_SEED=1, against a scratch copy of /repo; exit 1 = check fired", "mutants": rows}, open("/verif/mutants/kill_matrix.json", "w"), indent=1)
    finally:
        teardown()
    json.dump({"note": "quick tier, VERIF_SEED=1, against a scratch copy of /repo; exit 1 = check fired", "mutants": rows}, open("/verif/mutants/kill_matrix.json", "w"), indent=1)


if __name__ == "__main__":
    main()
