#!/usr/bin/env python3
"""Regression over all seeded changes: applies every /verif/seeded/<name>/patch.diff to a SCRATCH
copy of /repo (never to /repo itself), rebuilds a scratch copy of the harness against it and
runs the quick tier of the property's own check (plus the other checks recorded in meta.json).
Writes /verif/seeded/regression.json.  usage: tools/reseed.py [name ...]"""
import json, os, shutil, subprocess, sys, time

REPO = "/repo"
SCR = "/tmp/bn-repo"
HAR = "/tmp/bn-harness"
ROOT = "/tmp/bn-root"
ENV = dict(os.environ, CARGO_NET_OFFLINE="true", VERIF_ROOT=ROOT, VERIF_REPO=SCR, VERIF_SEED=os.environ.get("VERIF_SEED", "1"))


def sh(cmd, cwd=None, timeout=3600):
    p = subprocess.run(cmd, shell=True, cwd=cwd, env=ENV, stdout=subprocess.PIPE, stderr=subprocess.STDOUT, timeout=timeout)
    return p.returncode, p.stdout.decode(errors="replace")


def setup():
    for d in (HAR, ROOT):
        shutil.rmtree(d, ignore_errors=True)
    sh(f"git -C {REPO} worktree remove --force {SCR}")
    shutil.rmtree(SCR, ignore_errors=True)
    rc, out = sh(f"git -C {REPO} worktree add --detach {SCR} HEAD")
    assert rc == 0, out
    shutil.copy(f"{REPO}/Cargo.lock", f"{SCR}/Cargo.lock")
    os.makedirs(HAR)
    shutil.copytree("/verif/harness/src", f"{HAR}/src")
    open(f"{HAR}/Cargo.toml", "w").write(open("/verif/harness/Cargo.toml").read().replace('path = "/repo"', f'path = "{SCR}"'))
    shutil.copy("/verif/harness/Cargo.lock", f"{HAR}/Cargo.lock")
    os.makedirs(f"{ROOT}/evidence"); os.makedirs(f"{ROOT}/replays")
    shutil.copy("/verif/known_findings.json", f"{ROOT}/known_findings.json")


def main():
    """usage: tools/benign.py <dir-with-refactor_patch.diff> ... : runs ALL quick checks against a scratch
    copy of /repo with each (behaviour-preserving) refactor applied; any exit 1 is a potential false alarm"""
    dirs = sys.argv[1:]
    checks = ["C%02d" % i for i in range(1, 21)]
    setup()
    rows = []
    try:
        for d in dirs:
            name = os.path.basename(d.rstrip("/"))
            sh("git checkout -- .", cwd=SCR)
            rc, out = sh(f"git apply {d}/refactor_patch.diff", cwd=SCR)
            if rc != 0:
                rows.append({"refactor": name, "status": "patch_does_not_apply", "tail": out[-300:]}); print(name, "patch does not apply"); continue
            rc, out = sh("cargo test --offline --lib --test triangle", cwd=SCR)
            if rc != 0:
                rows.append({"refactor": name, "status": "existing_tests_fail"}); print(name, "existing tests fail"); continue
            rc, out = sh("cargo build --release --offline", cwd=HAR)
            if rc != 0:
                rows.append({"refactor": name, "status": "harness_does_not_build", "tail": out[-600:]}); print(name, "harness build failed", out[-600:]); continue
            res = {}
            for c in checks:
                rc, out = sh(f"{HAR}/target/release/mtverif {c} --tier quick", cwd=HAR)
                res[c] = {"exit": rc, "clauses": sorted(set(l.split("clause=")[1].split()[0] for l in out.splitlines() if "clause=" in l))}
                if rc == 1:
                    os.makedirs(f"/verif/benign/{name}", exist_ok=True)
                    open(f"/verif/benign/{name}/{c}.log", "w").write(out[-6000:])
                    for f in os.listdir(f"{ROOT}/replays"):
                        if f.startswith(c + "-"):
                            shutil.copy(f"{ROOT}/replays/{f}", f"/verif/benign/{name}/{f}")
            fired = [c for c, r in res.items() if r["exit"] == 1]
            rows.append({"refactor": name, "status": "ran", "fired": fired, "checks": res})
            print(name, "fired:", fired, flush=True)
            os.makedirs("/verif/benign", exist_ok=True)
            json.dump({"note": "all 20 quick checks against behaviour-preserving refactors written by independent sub-agents; a check that fires is a false alarm unless the refactor really breaks the property", "rows": rows}, open("/verif/benign/results.json", "w"), indent=1)
    finally:
        sh(f"git -C {REPO} worktree remove --force {SCR}")
        for d in (HAR, ROOT, SCR):
            shutil.rmtree(d, ignore_errors=True)


if __name__ == "__main__":
    main()
